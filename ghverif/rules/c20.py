"""C20 - per-borehole and system flow specifications are equivalent.

Decided:
  R20.1  identities: for BOREHOLE  v_sys = V * N,  m = V / 1000 * rho;  for SYSTEM  v_sys = V,
         m = V / N / 1000 * rho;  and the per-borehole mass flow BaseGHE.__init__ recomputes,
         (v_sys / nbh) / 1000 * rho, equals m in both cases (N = len(coordinates) = nbh) - so the g-function
         (computed with m) and the borehole model (computed with the recomputed value) see the same flow,
         and a system flow N * v gives the per-borehole flow v
  R20.2  siblings: the two retrieve_flow implementations (Bisection1D, RowWise) agree path by path; every
         FlowConfigType member is handled, anything else raises
  R20.5  routing: every constructor link from the design to retrieve_flow binds flow_type to the caller's own flow type
  R20.6  the summaries report (and compute Reynolds from) the live exchanger's m_flow_borehole
  R20.3  one field: in Bisection1D.__init__ and both initialize_ghe the same coordinates go to
         retrieve_flow, to the g-function calculation and (through it, as bore_locations) to the GHE; the
         mass flow given to the g-function is retrieve_flow's, the system flow given to the GHE is
         retrieve_flow's, the density is the fluid's

Not decided: the numerical equality of resistances / temperatures (follows from equal inputs, C13).
"""
from __future__ import annotations

import ast

from .. import sym
from ..model import AnalysisError, Program, attr_chain, bind_args, norm_stmt
from ..paths import Const, Engine, Hooks, Opaque, Seq, State, vkey
from ..report import Result
from ..selftest import Variant
from ..sym import Rat

PROP = "C20"
TITLE = "Per-borehole and system flow specifications are equivalent"
EXPLANATION = (
    "Rational identities in {V, N, rho} on the paths of both retrieve_flow implementations, composed with the "
    "recomputation in BaseGHE.__init__; argument-flow checks (same coordinates, same mass flow, same system flow) in the "
    "three places where a GHE is built; bore_locations pass-through in gfunction.calc_g_func_for_multiple_lengths."
)
ASSUMPTIONS = ["len(coordinates) is the number of boreholes"]

SR = "ghedesigner.search_routines"
GHX = "ghedesigner.ground_heat_exchangers"
GF = "ghedesigner.gfunction"


def flow_paths(prog: Program, cls: str):
    q = f"{SR}.{cls}.retrieve_flow"
    fi = prog.func(q)
    eng = Engine(prog, fi, Hooks())
    st = State()
    for p in fi.params():
        st.env[p] = Rat.atom(p)
    out = {}
    raises = 0
    for f in eng.run_function(st):
        if f.exit is None:
            raise AnalysisError(f"{q}: a path ends without returning")
        if f.exit[0] == "raise":
            raises += 1
            continue
        kind = None
        for m in ("BOREHOLE", "SYSTEM"):
            if f.sign_of(Rat.atom(f"FlowConfigType.{m}") - Rat.atom("self.flow_type")) == frozenset("0"):
                kind = m
        if kind is None:
            raise AnalysisError(f"{q}: a returning path is not selected by a FlowConfigType member")
        rv = f.exit[1]
        if not (isinstance(rv, Seq) and len(rv.items) == 2 and all(isinstance(x, Rat) for x in rv.items)):
            raise AnalysisError(f"{q}: return value is not (v_flow_system, m_flow_borehole)")
        out[kind] = (rv.items[0], rv.items[1], f)
    return fi, out, raises


def check(prog: Program, tier: str) -> Result:
    res = Result(PROP)
    V = Rat.atom("self.V_flow")
    per = {}
    for cls in ("Bisection1D", "RowWiseModifiedBisectionSearch"):
        fi, paths, raises = flow_paths(prog, cls)
        res.analysed(fi.qualname)
        per[cls] = (fi, paths)
        ps = [p for p in fi.params() if p != "self"]
        if len(ps) != 2:
            raise AnalysisError(f"{fi.qualname}: expected (coordinates, rho)")
        N = sym.call("len", [Rat.atom(ps[0])])
        RHO = Rat.atom(ps[1])
        want = {"BOREHOLE": (V * N, V / Rat.const(1000) * RHO), "SYSTEM": (V, V / N / Rat.const(1000) * RHO)}
        members = prog.enum_members("ghedesigner.enums.FlowConfigType")
        miss = sorted(set(members) - set(paths))
        res.ob("R20.2", f"{cls}.retrieve_flow handles every FlowConfigType member {members} and raises otherwise", not miss and raises >= 1, prog.loc(fi, fi.node))
        for m in miss:
            res.violation("R20.2", f"{cls}|member|{m}", prog.loc(fi, fi.node), fi.qualname, f"FlowConfigType.{m} is not handled by {cls}.retrieve_flow")
        if raises < 1:
            res.violation("R20.2", f"{cls}|no-raise", prog.loc(fi, fi.node), fi.qualname, f"{cls}.retrieve_flow returns for a flow type it does not know")
        for kind, (vs, m, f) in sorted(paths.items()):
            w = want[kind]
            ok = vs.equals(w[0]) and m.equals(w[1])
            res.ob("R20.1", f"{cls} [{kind}]: v_sys = {w[0].key()}, m = {w[1].key()[:60]} (got {vs.key()[:40]}, {m.key()[:60]})", ok, prog.loc(fi, f.exit[2]))
            if not vs.equals(w[0]):
                res.violation("R20.1", f"{cls}|{kind}|v_sys|{vs.key()[:60]}", prog.loc(fi, f.exit[2]), fi.qualname,
                              f"[{kind}] the system flow is {vs.key()[:100]} instead of {w[0].key()}")
            if not m.equals(w[1]):
                res.violation("R20.1", f"{cls}|{kind}|m_flow|{m.key()[:60]}", prog.loc(fi, f.exit[2]), fi.qualname,
                              f"[{kind}] the per-borehole mass flow is {m.key()[:120]} instead of {w[1].key()[:80]} (L/s -> m3/s -> kg/s, divided by the number of boreholes for a system flow)")
    # siblings
    a, b = per["Bisection1D"][1], per["RowWiseModifiedBisectionSearch"][1]
    for kind in sorted(set(a) & set(b)):
        pa = [p for p in per["Bisection1D"][0].params() if p != "self"]
        pb = [p for p in per["RowWiseModifiedBisectionSearch"][0].params() if p != "self"]
        ren = {pb[0]: Rat.atom(pa[0]), pb[1]: Rat.atom(pa[1]), f"len({pb[0]})": sym.call("len", [Rat.atom(pa[0])])}
        ok = a[kind][0].equals(b[kind][0].subs(ren)) and a[kind][1].equals(b[kind][1].subs(ren))
        res.ob("R20.2", f"[{kind}] the two retrieve_flow implementations agree", ok, prog.loc(per["RowWiseModifiedBisectionSearch"][0], per["RowWiseModifiedBisectionSearch"][0].node))
        if not ok:
            res.violation("R20.2", f"siblings|{kind}", prog.loc(per["RowWiseModifiedBisectionSearch"][0], b[kind][2].exit[2]), per["RowWiseModifiedBisectionSearch"][0].qualname,
                          f"[{kind}] Bisection1D and RowWise compute different flows: ({a[kind][0].key()[:50]}, {a[kind][1].key()[:60]}) vs ({b[kind][0].key()[:50]}, {b[kind][1].key()[:60]})")
    # BaseGHE.__init__ recomputation
    q = f"{GHX}.BaseGHE.__init__"
    gi = prog.func(q)
    res.analysed(q)
    eng = Engine(prog, gi, Hooks())
    st = State()
    for p in gi.params():
        st.env[p] = Rat.atom(p)
    fin = eng.run_function(st)
    if not fin:
        raise AnalysisError(f"{q}: no path")
    f0 = fin[0]
    m2 = f0.env.get("self.m_flow_borehole")
    nb = f0.env.get("self.nbh")
    if not isinstance(m2, Rat) or not isinstance(nb, Rat):
        raise AnalysisError(f"{q}: m_flow_borehole / nbh not understood")
    okn = nb.equals(sym.call("len", [Rat.atom("g_function.bore_locations")]))
    res.ob("R20.1", f"BaseGHE: nbh = len(g_function.bore_locations) (got {nb.key()})", okn, prog.loc(gi, gi.node))
    if not okn:
        res.violation("R20.1", f"nbh|{nb.key()[:60]}", prog.loc(gi, gi.node), q, f"the number of boreholes of a GHE is {nb.key()[:80]}, not the number of rows of its g-function's bore_locations")
    fi1 = per["Bisection1D"][0]
    p1 = [p for p in fi1.params() if p != "self"]
    N1 = sym.call("len", [Rat.atom(p1[0])])
    for kind, (vs, m, f) in sorted(per["Bisection1D"][1].items()):
        got = m2.subs({"v_flow_system": vs, nb.key(): N1, "fluid.rho": Rat.atom(p1[1])})
        ok = got.equals(m)
        res.ob("R20.1", f"[{kind}] BaseGHE's recomputed per-borehole mass flow equals the one the g-function was computed with", ok, prog.loc(gi, gi.node))
        if not ok:
            res.violation("R20.1", f"recompute|{kind}|{got.key()[:60]}", prog.loc(gi, gi.node), q,
                          f"[{kind}] BaseGHE recomputes the per-borehole mass flow as {got.key()[:120]} while the search passed {m.key()[:100]} to the g-function: "
                          f"borehole model and g-function see different flows")
    # bhe object receives the recomputed flow
    calls = [n for n in ast.walk(gi.node) if isinstance(n, ast.Call) and attr_chain(n.func) == "get_bhe_object"]
    ok = len(calls) == 1 and len(calls[0].args) >= 2 and isinstance(eng.eval(calls[0].args[1], f0), Rat) and eng.eval(calls[0].args[1], f0).equals(m2)
    res.ob("R20.1", "the borehole heat exchanger is built with that per-borehole mass flow", ok, prog.loc(gi, calls[0]) if calls else prog.loc(gi, gi.node))
    if not ok:
        res.violation("R20.1", "bhe-flow", prog.loc(gi, calls[0]) if calls else prog.loc(gi, gi.node), q, "get_bhe_object is not given the per-borehole mass flow of this field")

    _one_field(prog, res)
    _check_routing(prog, res)
    _check_reported_flow(prog, res)
    return res


def _one_field(prog: Program, res: Result):
    sites = [f"{SR}.Bisection1D.__init__", f"{SR}.Bisection1D.initialize_ghe", f"{SR}.RowWiseModifiedBisectionSearch.initialize_ghe"]
    gsig = prog.func(f"{GF}.calc_g_func_for_multiple_lengths")
    ghe_init = prog.func(f"{GHX}.GHE.__init__")
    for q in sites:
        fi = prog.func(q)
        res.analysed(q)

        class H(Hooks):
            def on_call(self, node, fname, args, kwargs, st, eng):
                if fname == "self.retrieve_flow":
                    st.emit("FLOW", (args, node), node)
                    return Seq([Rat.atom("FLOW_VSYS"), Rat.atom("FLOW_M")], "tuple")
                if fname == "calc_g_func_for_multiple_lengths":
                    b = bind_args(gsig, node)
                    st.emit("GFUNC", {k: eng.eval(v, st) for k, v in b.items()}, node)
                    return Rat.atom("GFUNC_OBJ")
                if fname == "GHE":
                    b = bind_args(ghe_init, node)
                    st.emit("GHE", {k: eng.eval(v, st) for k, v in b.items()}, node)
                    return Rat.atom("GHE_OBJ")
                if fname == "self.search":
                    return Seq([Rat.atom("K"), Rat.atom("C")], "tuple")
                return None

        eng = Engine(prog, fi, H())
        st = State()
        for p in fi.params():
            st.env[p] = Rat.atom(p)
        done = False
        for f in eng.run_function(st):
            fl = [e for e in f.events if e.kind == "FLOW"]
            gf = [e for e in f.events if e.kind == "GFUNC"]
            gh = [e for e in f.events if e.kind == "GHE"]
            if not (fl and gf and gh):
                continue
            if done:
                continue
            done = True
            coords = fl[0].data[0][0]
            rho = fl[0].data[0][1] if len(fl[0].data[0]) > 1 else None
            short = q.replace("ghedesigner.search_routines.", "")
            ok = vkey(gf[0].data.get("coordinates")) == vkey(coords)
            res.ob("R20.3", f"{short}: the g-function is computed for the coordinates whose flow was split ({vkey(coords)[:40]})", ok, prog.loc(fi, gf[0].node))
            if not ok:
                res.violation("R20.3", f"{short}|gfunc-coordinates|{vkey(gf[0].data.get('coordinates'))[:50]}", prog.loc(fi, gf[0].node), q,
                              f"retrieve_flow splits the flow over {vkey(coords)[:60]} but the g-function is computed for {vkey(gf[0].data.get('coordinates'))[:60]}")
            ok = gf[0].data.get("m_flow_borehole") == Rat.atom("FLOW_M")
            res.ob("R20.3", f"{short}: the g-function uses retrieve_flow's per-borehole mass flow", ok, prog.loc(fi, gf[0].node))
            if not ok:
                res.violation("R20.3", f"{short}|gfunc-mflow|{vkey(gf[0].data.get('m_flow_borehole'))[:50]}", prog.loc(fi, gf[0].node), q,
                              f"the g-function is computed with the mass flow {vkey(gf[0].data.get('m_flow_borehole'))[:80]} instead of retrieve_flow's")
            ok = gh[0].data.get("v_flow_system") == Rat.atom("FLOW_VSYS") and gh[0].data.get("g_function") == Rat.atom("GFUNC_OBJ")
            res.ob("R20.3", f"{short}: the GHE receives retrieve_flow's system flow and that g-function", ok, prog.loc(fi, gh[0].node))
            if not ok:
                res.violation("R20.3", f"{short}|ghe-args|{vkey(gh[0].data.get('v_flow_system'))[:40]}", prog.loc(fi, gh[0].node), q,
                              f"the GHE is built with v_flow_system = {vkey(gh[0].data.get('v_flow_system'))[:60]} and g_function = {vkey(gh[0].data.get('g_function'))[:40]}; "
                              f"expected retrieve_flow's system flow and the g-function just computed for the same field")
            okr = isinstance(rho, Rat) and rho.key().endswith("fluid.rho")
            res.ob("R20.3", f"{short}: the density used is the fluid's ({vkey(rho)})", okr, prog.loc(fi, fl[0].node))
            if not okr:
                res.violation("R20.3", f"{short}|rho|{vkey(rho)[:40]}", prog.loc(fi, fl[0].node), q, f"retrieve_flow is given {vkey(rho)[:60]} as density")
            okf = vkey(gh[0].data.get("fluid")) == vkey(gf[0].data.get("fluid"))
            if not okf:
                res.violation("R20.3", f"{short}|fluid-mismatch", prog.loc(fi, gh[0].node), q, "the GHE and its g-function are given different fluids")
        if not done:
            raise AnalysisError(f"{q}: no path builds a GHE from retrieve_flow and a g-function")
    # bore_locations pass-through
    q = f"{GF}.calc_g_func_for_multiple_lengths"
    fi = prog.func(q)
    res.analysed(q)
    # whatever way the constructor is called (positional, keywords, ** of a literal dictionary): its bore_locations argument is
    # this function's own coordinates parameter, unchanged
    from ..custody import call_sites, root_of

    ginit = prog.func(f"{GF}.GFunction.__init__")
    ok = False
    for cfi, cnode, bound in call_sites(prog, ginit):
        if cfi is fi and "bore_locations" in bound:
            r_ = root_of(fi.node, bound["bore_locations"])
            ok = r_[0] == "param" and r_[1] == "coordinates"
    res.ob("R20.3", "the g-function object records the coordinates it was computed for as bore_locations (hence nbh = N)", ok, prog.loc(fi, fi.node))
    if not ok:
        res.violation("R20.3", "bore-locations", prog.loc(fi, fi.node), q, "calc_g_func_for_multiple_lengths does not store its coordinates as bore_locations: nbh no longer equals the number of boreholes the flow was split over")
    # every borehole of the network gets the same per-borehole flow; network flow = N * m
    q = f"{GF}.calculate_g_function"
    fi = prog.func(q)
    res.analysed(q)
    okn = False
    nets = [c for c in ast.walk(fi.node) if isinstance(c, ast.Call) and (attr_chain(c.func) or "").endswith("Network")]
    for c in nets:
        kwv = next((k.value for k in c.keywords if k.arg == "m_flow_network"), None)
        bf = c.args[0] if c.args else None
        if kwv is None or not isinstance(bf, ast.Name):
            continue
        if isinstance(kwv, ast.Name):
            kwv = next((s_.value for s_ in ast.walk(fi.node) if isinstance(s_, ast.Assign) and len(s_.targets) == 1 and isinstance(s_.targets[0], ast.Name) and s_.targets[0].id == kwv.id), kwv)
        e = Engine(prog, fi, Hooks())
        s = State()
        for p in fi.params():
            s.env[p] = Rat.atom(p)
        s.env[bf.id] = Rat.atom("bore_field")
        v = e.eval(kwv, s)
        okn = isinstance(v, Rat) and v.equals(sym.call("len", [Rat.atom("bore_field")]) * Rat.atom("m_flow_borehole"))
        # the list handed to the network holds one borehole per coordinate
        fills = [lp for lp in ast.walk(fi.node) if isinstance(lp, ast.For) and ast.unparse(lp.iter) == "coordinates"
                 and sum(1 for b_ in lp.body if isinstance(b_, ast.Expr) and isinstance(b_.value, ast.Call) and attr_chain(b_.value.func) == f"{bf.id}.append") == 1]
        init_empty = any(isinstance(s_, ast.Assign) and len(s_.targets) == 1 and isinstance(s_.targets[0], ast.Name) and s_.targets[0].id == bf.id
                         and isinstance(s_.value, ast.List) and not s_.value.elts for s_ in fi.node.body)
        # ... or is built in one go by an unfiltered comprehension over the coordinates, bound once
        binds = [s_.value for s_ in ast.walk(fi.node) if isinstance(s_, ast.Assign) and any(isinstance(t_, ast.Name) and t_.id == bf.id for t_ in s_.targets)]
        comp = len(binds) == 1 and isinstance(binds[0], ast.ListComp) and len(binds[0].generators) == 1 and not binds[0].generators[0].ifs \
            and ast.unparse(binds[0].generators[0].iter) == "coordinates" \
            and not any(isinstance(c_, ast.Call) and isinstance(c_.func, ast.Attribute) and isinstance(c_.func.value, ast.Name) and c_.func.value.id == bf.id
                        and c_.func.attr in ("append", "extend", "pop", "remove", "insert", "clear") for c_ in ast.walk(fi.node))
        okn = okn and ((len(fills) == 1 and init_empty) or comp)
    res.ob("R20.3", "pygfunction network flow = number of boreholes * per-borehole mass flow", okn, prog.loc(fi, fi.node))
    if not okn:
        res.violation("R20.3", "network-flow", prog.loc(fi, fi.node), q, "the network mass flow handed to pygfunction is not (number of boreholes of the network, one per coordinate) * m_flow_borehole")


def _check_reported_flow(prog: Program, res: Result):
    """R20.6: the per-borehole mass flow the summaries report (and feed to the reported Reynolds number) is the live
    exchanger's own m_flow_borehole - the quantity the two flow specifications are equal in - not a re-derivation from the
    number the user typed (which is a system total for flow_type = system)."""
    OUTQ = "ghedesigner.output.OutputManager"
    want = "design.ghe.bhe.m_flow_borehole"

    def resolve(fi_, e_):
        # through one helper method of the output manager: self.h(design) -> its return expression
        if isinstance(e_, ast.Call) and (attr_chain(e_.func) or "").startswith("self."):
            h = prog.method(OUTQ, attr_chain(e_.func).split(".")[-1])
            if h is not None:
                rets = [r for r in ast.walk(h.node) if isinstance(r, ast.Return) and r.value is not None]
                if len(rets) == 1:
                    return rets[0].value
        return e_

    n_sites = 0
    for mname in ("get_summary_object", "get_summary_text"):
        fi = prog.method(OUTQ, mname)
        if fi is None:
            raise AnalysisError(f"{OUTQ}.{mname} not found")
        sites = []
        for n in ast.walk(fi.node):
            if isinstance(n, ast.Dict):
                for k, v in zip(n.keys, n.values):
                    if isinstance(k, ast.Constant) and k.value == "fluid_mass_flow_rate_per_borehole":
                        x = v.args[0] if isinstance(v, ast.Call) and attr_chain(v.func) == "add_with_units" and v.args else v
                        sites.append(("summary key fluid_mass_flow_rate_per_borehole", x, v))
            if isinstance(n, ast.Call) and attr_chain(n.func) == "self.d_row" and len(n.args) >= 3 and isinstance(n.args[1], ast.Constant) and "Mass Flow Rate Per Borehole" in str(n.args[1].value):
                sites.append(("text row 'Mass Flow Rate Per Borehole'", n.args[2], n))
            if isinstance(n, ast.Call) and (attr_chain(n.func) or "").split(".")[-1] in ("compute_reynolds", "compute_reynolds_concentric") and n.args:
                sites.append((f"Reynolds number ({(attr_chain(n.func) or '').split('.')[-1]})", n.args[0], n))
        for label, x, node in sites:
            n_sites += 1
            got = ast.unparse(resolve(fi, x))
            ok = got == want
            res.ob("R20.6", f"{mname}: {label} is the live exchanger's m_flow_borehole", ok, prog.loc(fi, node))
            if not ok:
                res.violation("R20.6", f"{mname}|{label}|{got[:50]}", prog.loc(fi, node), fi.qualname,
                              f"{label} is reported from {got[:80]} instead of {want}: with a system flow specification the summary shows N times the per-borehole flow")
    res.count("reported_flow_sites", n_sites)
    res.floor("reported_flow_sites", 4)


def _check_routing(prog: Program, res: Result):
    """R20.5: the user's flow type reaches retrieve_flow.  Chain: GHEManager.set_design -> Design*(flow_type=..) ->
    DesignBase.flow_type -> <search class>(flow_type=self.flow_type) -> [super().__init__(flow_type=flow_type)] ->
    self.flow_type = flow_type -> retrieve_flow reads self.flow_type.  Every link is a call whose `flow_type` parameter must
    be bound to the caller's own flow type; a link that leaves it out falls back to a default (or raises) and a system flow
    is then treated as a per-borehole flow."""
    SRm = "ghedesigner.search_routines"
    DES = "ghedesigner.design"
    n_links = 0
    search_classes = {c.name: c for q, c in prog.classes.items() if q.startswith(SRm + ".") and "__init__" in c.methods and "flow_type" in c.methods["__init__"].params()}
    if len(search_classes) < 3:
        raise AnalysisError(f"{SRm}: search classes with a flow_type parameter not found")
    for cname, c in sorted(search_classes.items()):
        init = c.methods["__init__"]
        # (a) stored, or forwarded to the base constructor, from the class's own parameter
        stores = [n for n in ast.walk(init.node) if isinstance(n, ast.Assign) and any(attr_chain(t) == "self.flow_type" for t in n.targets)]
        supers = [n for n in ast.walk(init.node) if isinstance(n, ast.Call) and isinstance(n.func, ast.Attribute) and n.func.attr == "__init__"]
        ok_store = any(isinstance(n.value, ast.Name) and n.value.id == "flow_type" for n in stores)
        fwd = []
        for sc in supers:
            base = None
            fv = sc.func.value
            if isinstance(fv, ast.Call) and attr_chain(fv.func) == "super":
                for b_ in prog.mro(f"{SRm}.{cname}")[1:]:
                    if "__init__" in b_.methods:
                        base = b_.methods["__init__"]
                        break
            elif attr_chain(fv) in search_classes:
                base = search_classes[attr_chain(fv)].methods["__init__"]
            if base is None or "flow_type" not in base.params():
                continue
            args = sc.args[1:] if (sc.args and isinstance(sc.args[0], ast.Name) and sc.args[0].id == "self" and not isinstance(fv, ast.Call)) else sc.args
            call2 = ast.Call(func=sc.func, args=list(args), keywords=sc.keywords)
            b = bind_args(base, call2)
            fwd.append((sc, b.get("flow_type")))
        n_links += 1
        if fwd:
            ok = all(isinstance(v, ast.Name) and v.id == "flow_type" for _, v in fwd)
            res.ob("R20.5", f"{cname}.__init__ forwards its flow_type to the base constructor", ok, prog.loc(init, fwd[0][0]))
            if not ok:
                got = [ast.unparse(v) if v is not None else "<left out>" for _, v in fwd]
                res.violation("R20.5", f"routing|{cname}|super|{got}", prog.loc(init, fwd[0][0]), init.qualname,
                              f"{cname}.__init__ calls the base constructor with flow_type = {got}: the caller's flow type is not forwarded, a system flow is silently treated as the default (per-borehole) one")
        else:
            res.ob("R20.5", f"{cname}.__init__ stores its flow_type parameter in self.flow_type", ok_store, prog.loc(init, init.node))
            if not ok_store:
                res.violation("R20.5", f"routing|{cname}|store", prog.loc(init, init.node), init.qualname, f"{cname}.__init__ does not store its flow_type parameter in self.flow_type")
    # (b) every construction of a search class in the design module passes the design's own flow type
    for q, fi in sorted(prog.funcs.items()):
        if not q.startswith(DES + "."):
            continue
        for cl in ast.walk(fi.node):
            if isinstance(cl, ast.Call) and attr_chain(cl.func) in search_classes:
                b = bind_args(search_classes[attr_chain(cl.func)].methods["__init__"], cl)
                v = b.get("flow_type")
                n_links += 1
                ok = v is not None and ast.unparse(v) == "self.flow_type"
                res.ob("R20.5", f"{q.replace('ghedesigner.', '')}: {attr_chain(cl.func)}(.., flow_type=self.flow_type)", ok, prog.loc(fi, cl))
                if not ok:
                    res.violation("R20.5", f"routing|{q}|{attr_chain(cl.func)}|{ast.unparse(v) if v is not None else 'left-out'}", prog.loc(fi, cl), q,
                                  f"{attr_chain(cl.func)} is constructed with flow_type = {ast.unparse(v) if v is not None else '<left out>'} instead of the design's own flow type")
    # (c) the design stores what it is given, and subclasses forward it
    db = prog.method(f"{DES}.DesignBase", "__init__")
    ok = any(isinstance(n, ast.Assign) and any(attr_chain(t) == "self.flow_type" for t in n.targets) and isinstance(n.value, ast.Name) and n.value.id == "flow_type" for n in ast.walk(db.node))
    res.ob("R20.5", "DesignBase.__init__ stores its flow_type parameter", ok, prog.loc(db, db.node))
    if not ok:
        res.violation("R20.5", "routing|DesignBase|store", prog.loc(db, db.node), db.qualname, "DesignBase.__init__ does not store its flow_type parameter in self.flow_type")
    for q, c in sorted(prog.classes.items()):
        if not q.startswith(DES + ".") or c.name == "DesignBase" or "__init__" not in c.methods:
            continue
        init = c.methods["__init__"]
        if "flow_type" not in init.params():
            continue
        for sc in ast.walk(init.node):
            if isinstance(sc, ast.Call) and isinstance(sc.func, ast.Attribute) and sc.func.attr == "__init__" and isinstance(sc.func.value, ast.Call) and attr_chain(sc.func.value.func) == "super":
                b = bind_args(db, sc)
                v = b.get("flow_type")
                n_links += 1
                ok = isinstance(v, ast.Name) and v.id == "flow_type"
                res.ob("R20.5", f"{c.name}.__init__ forwards its flow_type to DesignBase", ok, prog.loc(init, sc))
                if not ok:
                    res.violation("R20.5", f"routing|{c.name}|super|{ast.unparse(v) if v is not None else 'left-out'}", prog.loc(init, sc), init.qualname,
                                  f"{c.name}.__init__ passes flow_type = {ast.unparse(v) if v is not None else '<left out>'} to DesignBase")
    # (d) the manager: every way set_design reports success has built a NEW design object from this call's flow number and flow
    #     type and stored it - a path that keeps an earlier object carries the earlier call's flow type
    from ..paths import Const as _C, Engine as _E, Hooks as _H, Obj as _O, State as _S, vkey as _vk
    from ..sym import Rat as _R

    sd = prog.func("ghedesigner.manager.GHEManager.set_design")
    res.analysed(sd.qualname)
    dclasses = {c.name: c for q, c in prog.classes.items() if q.startswith(DES + ".") and c.name != "DesignBase" and prog.method(q, "__init__") is not None}

    class HD(_H):
        def on_call(self, node, fname, args, kwargs, st, eng):
            if fname in dclasses:
                init_ = prog.method(dclasses[fname].qualname, "__init__")
                b_ = bind_args(init_, node)
                st.emit("DESIGN", (fname, {k: eng.eval(v, st) for k, v in b_.items() if k in ("v_flow", "flow_type")}), node)
                return _O(f"DESIGN#{fname}#{node.lineno}")
            return None

        def on_assign(self, key, val, stmt, st, eng):
            if key == "self._design":
                st.emit("STORE", val, stmt)
            if key in ("self._design.V_flow", "self._design.flow_type"):
                st.emit("UPDATE", (key.rsplit(".", 1)[1], val), stmt)

    e_ = _E(prog, sd, HD())
    s_ = _S()
    for p_ in sd.params():
        s_.env[p_] = _R.atom(p_)
    n_ok = 0
    for f_ in e_.run_function(s_):
        if f_.exit is None or f_.exit[0] != "return":
            continue
        rv = f_.exit[1]
        if not (isinstance(rv, _R) and rv.is_const() and rv.const_value() == 0):
            continue
        ds = [e for e in f_.events if e.kind == "DESIGN"]
        stored = [e for e in f_.events if e.kind == "STORE"]
        okd = len(ds) == 1 and len(stored) >= 1 and isinstance(ds[0].data[1].get("v_flow"), _R) and ds[0].data[1]["v_flow"].equals(_R.atom(sd.params()[1] if sd.params()[0] == "self" else sd.params()[0]))
        if okd and "flow_type" not in ds[0].data[1]:
            # the design class is given the flow number but not what it means: its default (per borehole) then applies whatever the caller said
            res.ob("R20.5", f"set_design hands this call's flow type to {ds[0].data[0]}", False, prog.loc(sd, ds[0].node))
            res.violation("R20.5", f"routing|set_design|flow_type-left-out|{ds[0].data[0]}", prog.loc(sd, ds[0].node), sd.qualname,
                          f"{ds[0].data[0]}(...) is constructed without flow_type: the class default (a per-borehole flow) is used whatever the caller specified, so a system flow is searched as a per-borehole flow")
            n_ok += 1
            n_links += 1
            continue
        if not okd and not ds:
            # an existing design object is kept: acceptable only if BOTH the flow number and the flow type are brought up to date
            ups = {e.data[0]: e.data[1] for e in f_.events if e.kind == "UPDATE"}
            fr = _R.atom(sd.params()[1] if sd.params()[0] == "self" else sd.params()[0])
            okd = isinstance(ups.get("V_flow"), _R) and ups["V_flow"].equals(fr) and "flow_type" in ups and not (isinstance(ups["flow_type"], _R) and ups["flow_type"].equals(_R.atom("self._design.flow_type")))
        n_ok += 1
        n_links += 1
        res.ob("R20.5", f"set_design reports success after building {ds[0].data[0] if ds else 'NO design object'} from this call's flow number and storing it", okd, prog.loc(sd, f_.exit[2]))
        if not okd:
            res.violation("R20.5", f"routing|set_design|{'no-design' if not ds else 'v_flow=' + _vk(ds[0].data[1].get('v_flow'))[:30]}", prog.loc(sd, f_.exit[2]), sd.qualname,
                          "set_design returns 0 on a path that does not build a design object from this call's (flow_rate, flow_type): the design that is kept carries the flow type of an earlier call, "
                          "so a system flow is searched as a per-borehole flow (or the reverse)")
    if n_ok < 6:
        raise AnalysisError(f"{sd.qualname}: success paths not found ({n_ok})")
    res.count("flow_type_links", n_links)
    res.floor("flow_type_links", 14)


VARIANTS = [
    Variant("set_design keeps the existing design object and only updates its flow number (seeded C20_e)", "break",
            [("ghedesigner.manager", "        if self._geometric_constraints.type == DesignGeomType.NEARSQUARE:\n", "        if self._design is not None and self._design.geometric_constraints is self._geometric_constraints:\n            self._design.V_flow = flow_rate\n            return 0\n        if self._geometric_constraints.type == DesignGeomType.NEARSQUARE:\n")], "R20.5"),
    Variant("set_design keeps the existing design object and updates flow number and flow type", "benign",
            [("ghedesigner.manager", "        if self._geometric_constraints.type == DesignGeomType.NEARSQUARE:\n", "        if self._design is not None and self._design.geometric_constraints is self._geometric_constraints:\n            self._design.V_flow = flow_rate\n            self._design.flow_type = flow_type\n            return 0\n        if self._geometric_constraints.type == DesignGeomType.NEARSQUARE:\n")]),
    Variant("summary mass flow re-derived from the user's flow number (seeded C20_d)", "break",
            [("ghedesigner.output", "                'fluid_mass_flow_rate_per_borehole': add_with_units(design.ghe.bhe.m_flow_borehole, 'kg/s'),", "                'fluid_mass_flow_rate_per_borehole': add_with_units(design.V_flow / 1000.0 * design.ghe.bhe.fluid.rho, 'kg/s'),")], "R20.6"),
    Variant("BisectionZD no longer forwards flow_type, the base default hides it (seeded C20)", "break",
            [(SR, "        flow_type: FlowConfigType.BOREHOLE,\n        max_iter=15,\n        disp=False,\n        search=True,", "        flow_type: FlowConfigType = FlowConfigType.BOREHOLE,\n        max_iter=15,\n        disp=False,\n        search=True,"),
             (SR, "            method=method,\n            flow_type=flow_type,\n            max_iter=max_iter,\n            disp=disp,\n            search=False,\n            field_type=field_type,\n            load_years=load_years,\n        )\n\n        self.coordinates_domain_nested = coordinates_domain_nested",
              "            method=method,\n            max_iter=max_iter,\n            disp=disp,\n            search=False,\n            field_type=field_type,\n            load_years=load_years,\n        )\n\n        self.coordinates_domain_nested = coordinates_domain_nested")], "R20.5"),
    Variant("SYSTEM branch of Bisection1D forgets to divide by the number of boreholes", "break",
            [(SR, "            v_flow_system = self.V_flow\n            v_flow_borehole = self.V_flow / len(coordinates)\n            m_flow_borehole = v_flow_borehole / 1000.0 * rho\n        else:\n            raise ValueError(\"The flow argument should be either `borehole`\" \"or `system`.\")\n        return v_flow_system, m_flow_borehole\n\n    def initialize_ghe(self, coordinates, h, field_specifier=\"N/A\"):\n        v_flow_system, m_flow_borehole = self.retrieve_flow(coordinates, self.ghe.bhe.fluid.rho)",
              "            v_flow_system = self.V_flow\n            v_flow_borehole = self.V_flow\n            m_flow_borehole = v_flow_borehole / 1000.0 * rho\n        else:\n            raise ValueError(\"The flow argument should be either `borehole`\" \"or `system`.\")\n        return v_flow_system, m_flow_borehole\n\n    def initialize_ghe(self, coordinates, h, field_specifier=\"N/A\"):\n        v_flow_system, m_flow_borehole = self.retrieve_flow(coordinates, self.ghe.bhe.fluid.rho)")], "R20.1"),
    Variant("RowWise retrieve_flow converts litres with /100", "break",
            [(SR, "            m_flow_borehole = self.V_flow / 1000.0 * rho\n        elif self.flow_type == FlowConfigType.SYSTEM:\n            v_flow_system = self.V_flow\n            v_flow_borehole = self.V_flow / len(coordinates)\n            m_flow_borehole = v_flow_borehole / 1000.0 * rho\n        else:\n            raise ValueError(\"The flow argument should be either `borehole`\" \"or `system`.\")\n        return v_flow_system, m_flow_borehole\n\n    def initialize_ghe(self, coordinates, h, field_specifier=\"N/A\"):\n        v_flow_system, m_flow_borehole = self.retrieve_flow(coordinates, self.fluid.rho)",
              "            m_flow_borehole = self.V_flow / 100.0 * rho\n        elif self.flow_type == FlowConfigType.SYSTEM:\n            v_flow_system = self.V_flow\n            v_flow_borehole = self.V_flow / len(coordinates)\n            m_flow_borehole = v_flow_borehole / 1000.0 * rho\n        else:\n            raise ValueError(\"The flow argument should be either `borehole`\" \"or `system`.\")\n        return v_flow_system, m_flow_borehole\n\n    def initialize_ghe(self, coordinates, h, field_specifier=\"N/A\"):\n        v_flow_system, m_flow_borehole = self.retrieve_flow(coordinates, self.fluid.rho)")], "R20."),
    Variant("initialize_ghe computes the g-function for the first field of the domain", "break",
            [(SR, "            self.log_time,\n            coordinates,\n            fluid,\n            pipe,\n            grout,\n            soil,\n        )\n\n        # Initialize the GHE object\n        self.ghe = GHE(\n            v_flow_system,\n            b,\n            self.bhe_type,\n            fluid,\n            borehole,\n            pipe,\n            grout,\n            soil,\n            g_function,\n            self.sim_params,\n            self.hourly_extraction_ground_loads,\n            field_type=self.field_type,",
              "            self.log_time,\n            self.coordinates_domain[0],\n            fluid,\n            pipe,\n            grout,\n            soil,\n        )\n\n        # Initialize the GHE object\n        self.ghe = GHE(\n            v_flow_system,\n            b,\n            self.bhe_type,\n            fluid,\n            borehole,\n            pipe,\n            grout,\n            soil,\n            g_function,\n            self.sim_params,\n            self.hourly_extraction_ground_loads,\n            field_type=self.field_type,")], "R20.3"),
    Variant("BaseGHE converts litres with /100", "break", [(GHX, "        m_flow_borehole = self.V_flow_borehole / 1000.0 * fluid.rho", "        m_flow_borehole = self.V_flow_borehole / 100.0 * fluid.rho")], "R20.1"),
    Variant("BOREHOLE branch reports the per-borehole flow as system flow", "break",
            [(SR, "            v_flow_system = self.V_flow * len(coordinates)\n            # Total fluid mass flow rate per borehole (kg/s)\n            m_flow_borehole = self.V_flow / 1000.0 * rho\n        elif self.flow_type == FlowConfigType.SYSTEM:\n            v_flow_system = self.V_flow\n            v_flow_borehole = self.V_flow / len(coordinates)\n            m_flow_borehole = v_flow_borehole / 1000.0 * rho\n        else:\n            raise ValueError(\"The flow argument should be either `borehole`\" \"or `system`.\")\n        return v_flow_system, m_flow_borehole\n\n    def initialize_ghe(self, coordinates, h, field_specifier=\"N/A\"):\n        v_flow_system, m_flow_borehole = self.retrieve_flow(coordinates, self.ghe.bhe.fluid.rho)",
              "            v_flow_system = self.V_flow\n            # Total fluid mass flow rate per borehole (kg/s)\n            m_flow_borehole = self.V_flow / 1000.0 * rho\n        elif self.flow_type == FlowConfigType.SYSTEM:\n            v_flow_system = self.V_flow\n            v_flow_borehole = self.V_flow / len(coordinates)\n            m_flow_borehole = v_flow_borehole / 1000.0 * rho\n        else:\n            raise ValueError(\"The flow argument should be either `borehole`\" \"or `system`.\")\n        return v_flow_system, m_flow_borehole\n\n    def initialize_ghe(self, coordinates, h, field_specifier=\"N/A\"):\n        v_flow_system, m_flow_borehole = self.retrieve_flow(coordinates, self.ghe.bhe.fluid.rho)")], "R20.1"),
    Variant("g-function object forgets its coordinates", "break", [(GF, "        \"bore_locations\": coordinates,", "        \"bore_locations\": coordinates[:1],")], "R20.3"),
    Variant("V / 1000 * rho written as rho * V / 1000", "benign",
            [(GHX, "        m_flow_borehole = self.V_flow_borehole / 1000.0 * fluid.rho", "        m_flow_borehole = fluid.rho * self.V_flow_borehole / 1000.0")]),
]
