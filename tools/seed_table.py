"""markdown table of the stored seeded changes (from seeded/*/meta.json) for DESIGN.md section 11"""
import glob
import json
import os

rows = []
for mf in sorted(glob.glob("/verif/seeded/*/meta.json")):
    m = json.load(open(mf))
    tag = m["id"]
    notes = open(os.path.join(os.path.dirname(mf), "notes.md")).read() if os.path.exists(os.path.join(os.path.dirname(mf), "notes.md")) else ""
    first = next((l.strip("# ").strip() for l in notes.splitlines() if l.strip()), "")
    chk = "; ".join(f"{p} {'+'.join(v['rules']) or ('exit ' + str(v['exit']))}" for p, v in m["checks"].items()) or "none"
    rows.append(f"| {tag} | {first[:110]} | {chk} |")
print("| seed | change (sub-agent's own heading) | reported by |")
print("|---|---|---|")
print("\n".join(rows))
