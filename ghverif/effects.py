"""E5 - attribute effects of methods: upward-exposed reads, must / may writes on `self`.

A structured walk over a method body keeps the set of `self` attribute chains that are
definitely written on the current path (must-write).  A read of a chain none of whose
prefixes is in that set is *upward exposed*: its value comes from before the call.  Calls
to other methods of the same object (and to closures that capture self) are summarised
recursively.  An attribute that a call set both reads upward-exposed and writes is state
carried from one call to the next - the structural form of history dependence.
"""
from __future__ import annotations

import ast
from dataclasses import dataclass, field
from typing import Dict, List, Optional, Set, Tuple

from .model import FunctionInfo, Program, attr_chain

MUTATORS = {"append", "extend", "pop", "update", "insert", "clear", "remove", "sort", "reverse", "setdefault", "add", "discard"}


@dataclass
class Effects:
    exposed: Dict[str, ast.AST] = field(default_factory=dict)  # chain -> first node reading it upward-exposed
    may_write: Dict[str, ast.AST] = field(default_factory=dict)  # chain -> a node writing it
    must_write: Set[str] = field(default_factory=set)  # chains written on every path that returns normally
    calls: List[Tuple[str, ast.AST]] = field(default_factory=list)  # resolved self-callee qualnames
    foreign: List[Tuple[str, str, ast.AST]] = field(default_factory=list)  # (receiver chain, method, node) calls on attribute objects


def _covered(chain: str, written: Set[str]) -> bool:
    parts = chain.split(".")
    for k in range(2, len(parts) + 1):
        if ".".join(parts[:k]) in written:
            return True
    return False


class EffectAnalyzer:
    def __init__(self, prog: Program, self_name: str = "self", attr_types=None):
        self.prog = prog
        self.self_name = self_name
        # optional: cls qualname -> {"self.attr": [class qualnames of the object held there]}; with it, a call on an
        # attribute object is summarised THROUGH the object: the callee's effects on its own `self.x` become effects
        # on `self.attr.x` of the caller
        self.attr_types = attr_types
        self.memo: Dict[str, Effects] = {}
        self.stack: List[str] = []

    # ---- public
    def method(self, fi: FunctionInfo) -> Effects:
        q = fi.qualname
        if q in self.memo:
            return self.memo[q]
        if q in self.stack:
            return Effects()
        self.stack.append(q)
        eff = Effects()
        cls_q = f"{fi.module}.{fi.cls}" if fi.cls else None
        locals_funcs = {n.name: n for n in ast.walk(fi.node) if isinstance(n, ast.FunctionDef) and n is not fi.node}
        self._rets = getattr(self, "_rets", [])
        self._rets.append([])
        w = self._block(fi.node.body, set(), eff, fi, cls_q, locals_funcs)
        exits = self._rets.pop() + ([set(w)] if w is not None else [])
        # written on every path that returns normally: at every `return` and at the end of the body
        eff.must_write = set.intersection(*exits) if exits else set()
        self.stack.pop()
        self.memo[q] = eff
        return eff

    # ---- walk
    def _reads(self, node: ast.AST, W: Set[str], eff: Effects, fi, cls_q, lf):
        """record upward-exposed reads in an expression; apply effects of calls in evaluation order (approx.)"""
        if node is None:
            return
        for n in self._iter_expr(node):
            if isinstance(n, ast.Call):
                self._call(n, W, eff, fi, cls_q, lf)
            elif isinstance(n, ast.Attribute) and isinstance(n.ctx, ast.Load):
                c = attr_chain(n)
                if c and c.startswith(self.self_name + ".") and not _covered(c, W):
                    # record the longest chain only (outermost Attribute); inner ones are prefixes
                    eff.exposed.setdefault(c, n)

    def _iter_expr(self, node):
        """outermost attribute chains and calls, not descending into chains already reported or nested defs"""
        stack = [node]
        while stack:
            n = stack.pop()
            if isinstance(n, (ast.FunctionDef, ast.Lambda, ast.ClassDef)):
                continue
            if isinstance(n, ast.Attribute) and attr_chain(n) is not None:
                yield n
                continue
            if isinstance(n, ast.Call):
                yield n
                # the callee expression and the arguments
                if isinstance(n.func, ast.Attribute):
                    # receiver is read; method name itself is not an attribute read of interest
                    stack.append(n.func.value)
                elif not isinstance(n.func, ast.Name):
                    stack.append(n.func)
                stack.extend(n.args)
                stack.extend(k.value for k in n.keywords)
                continue
            stack.extend(ast.iter_child_nodes(n))

    def _apply_summary(self, s: Effects, W: Set[str], eff: Effects, node):
        for c, nd in s.exposed.items():
            if not _covered(c, W):
                eff.exposed.setdefault(c, nd)
        for c, nd in s.may_write.items():
            eff.may_write.setdefault(c, nd)
        for x in s.foreign:
            if x not in eff.foreign:
                eff.foreign.append(x)
        W |= s.must_write

    def _call(self, n: ast.Call, W: Set[str], eff: Effects, fi, cls_q, lf):
        f = n.func
        if isinstance(f, ast.Attribute):
            recv = attr_chain(f.value)
            if recv == self.self_name and cls_q:
                callee = self.prog.method(cls_q, f.attr)
                if callee is not None:
                    eff.calls.append((callee.qualname, n))
                    self._apply_summary(self.method(callee), W, eff, n)
                return
            if recv and recv.startswith(self.self_name + "."):
                if f.attr in MUTATORS:
                    if not _covered(recv, W):
                        eff.exposed.setdefault(recv, n)
                    eff.may_write.setdefault(recv, n)
                else:
                    eff.foreign.append((recv, f.attr, n))
                    if self.attr_types is not None and cls_q and recv.count(".") == 1:
                        tys = self.attr_types(cls_q).get(recv, [])
                        sums = []
                        for ty in tys:
                            cal = self.prog.method(ty, f.attr)
                            if cal is not None:
                                sums.append(self.method(cal))
                        if sums and len(sums) == len(tys):
                            def tr(c):
                                return recv + c[len(self.self_name):] if c == self.self_name or c.startswith(self.self_name + ".") else None

                            for sm in sums:
                                for c, nd in sm.exposed.items():
                                    t = tr(c)
                                    if t and not _covered(t, W):
                                        eff.exposed.setdefault(t, n)
                                for c, nd in sm.may_write.items():
                                    t = tr(c)
                                    if t:
                                        eff.may_write.setdefault(t, n)
                            must = set.intersection(*[set(sm.must_write) for sm in sums]) if sums else set()
                            W |= {tr(c) for c in must if tr(c)}
            # super().__init__ / Base.__init__(self, ...)
            if isinstance(f.value, ast.Call) and attr_chain(f.value.func) == "super" and cls_q:
                for c in self.prog.mro(cls_q)[1:]:
                    if f.attr in c.methods:
                        self._apply_summary(self.method(c.methods[f.attr]), W, eff, n)
                        break
            elif recv and n.args and isinstance(n.args[0], ast.Name) and n.args[0].id == self.self_name:
                r = self.prog.resolve_name(fi.module, recv.split(".")[0])
                if r and r[0] == "class" and f.attr in r[1].methods:
                    self._apply_summary(self.method(r[1].methods[f.attr]), W, eff, n)
            return
        if isinstance(f, ast.Name):
            if f.id in lf:
                sub = FunctionInfo(f"{fi.qualname}.<locals>.{f.id}", fi.module, fi.cls, lf[f.id], parent=fi)
                self._apply_summary(self.method(sub), W, eff, n)
            # closures passed as callbacks are assumed to be invoked by the callee
            for a in list(n.args) + [k.value for k in n.keywords]:
                if isinstance(a, ast.Name) and a.id in lf:
                    sub = FunctionInfo(f"{fi.qualname}.<locals>.{a.id}", fi.module, fi.cls, lf[a.id], parent=fi)
                    s = self.method(sub)
                    # may be called zero or more times: exposed reads and may-writes apply, must-writes do not
                    for c, nd in s.exposed.items():
                        if not _covered(c, W):
                            eff.exposed.setdefault(c, nd)
                    for c, nd in s.may_write.items():
                        eff.may_write.setdefault(c, nd)

    def _write_target(self, t: ast.expr, W: Set[str], eff: Effects, fi, cls_q, lf):
        if isinstance(t, ast.Attribute):
            c = attr_chain(t)
            if c and c.startswith(self.self_name + "."):
                parts = c.split(".")
                if len(parts) > 2:
                    # writing a field of an object held in an attribute: the holder is read
                    holder = ".".join(parts[:-1])
                    if not _covered(holder, W):
                        eff.exposed.setdefault(holder, t)
                eff.may_write.setdefault(c, t)
                W.add(c)
            else:
                self._reads(t.value, W, eff, fi, cls_q, lf)
        elif isinstance(t, ast.Subscript):
            c = attr_chain(t.value)
            self._reads(t.slice, W, eff, fi, cls_q, lf)
            if c and c.startswith(self.self_name + "."):
                if not _covered(c, W):
                    eff.exposed.setdefault(c, t)
                eff.may_write.setdefault(c, t)
            else:
                self._reads(t.value, W, eff, fi, cls_q, lf)
        elif isinstance(t, (ast.Tuple, ast.List)):
            for e in t.elts:
                self._write_target(e, W, eff, fi, cls_q, lf)
        elif isinstance(t, ast.Starred):
            self._write_target(t.value, W, eff, fi, cls_q, lf)

    def _block(self, stmts, W: Optional[Set[str]], eff: Effects, fi, cls_q, lf) -> Optional[Set[str]]:
        """returns the must-write set after the block, or None if the block never completes normally"""
        for s in stmts:
            if W is None:
                return None
            W = self._stmt(s, W, eff, fi, cls_q, lf)
        return W

    @staticmethod
    def _join(a: Optional[Set[str]], b: Optional[Set[str]]) -> Optional[Set[str]]:
        if a is None:
            return b
        if b is None:
            return a
        return a & b

    def _stmt(self, s, W: Set[str], eff: Effects, fi, cls_q, lf) -> Optional[Set[str]]:
        R = lambda e, w=None: self._reads(e, W if w is None else w, eff, fi, cls_q, lf)  # noqa: E731
        if isinstance(s, ast.Assign):
            R(s.value)
            for t in s.targets:
                self._write_target(t, W, eff, fi, cls_q, lf)
            return W
        if isinstance(s, ast.AnnAssign):
            if s.value is not None:
                R(s.value)
                self._write_target(s.target, W, eff, fi, cls_q, lf)
            return W
        if isinstance(s, ast.AugAssign):
            R(s.value)
            import copy

            t2 = copy.deepcopy(s.target)
            for n in ast.walk(t2):
                if hasattr(n, "ctx"):
                    n.ctx = ast.Load()
            R(t2)
            self._write_target(s.target, W, eff, fi, cls_q, lf)
            return W
        if isinstance(s, ast.Expr):
            R(s.value)
            return W
        if isinstance(s, ast.Return):
            R(s.value)
            if getattr(self, "_rets", None):
                self._rets[-1].append(set(W))
            return None
        if isinstance(s, ast.Raise):
            R(s.exc)
            return None
        if isinstance(s, ast.If):
            R(s.test)
            a = self._block(s.body, set(W), eff, fi, cls_q, lf)
            b = self._block(s.orelse, set(W), eff, fi, cls_q, lf)
            return self._join(a, b)
        if isinstance(s, (ast.For, ast.While)):
            if isinstance(s, ast.For):
                R(s.iter)
            else:
                R(s.test)
            self._block(s.body, set(W), eff, fi, cls_q, lf)
            if s.orelse:
                self._block(s.orelse, set(W), eff, fi, cls_q, lf)
            if isinstance(s, ast.While) and isinstance(s.test, ast.Constant) and s.test.value is True:
                # leaves only by break / return: approximate with the entry set
                return W
            return W
        if isinstance(s, ast.With):
            for it in s.items:
                R(it.context_expr)
            return self._block(s.body, W, eff, fi, cls_q, lf)
        if isinstance(s, ast.Try):
            a = self._block(s.body, set(W), eff, fi, cls_q, lf)
            if a is not None and s.orelse:
                a = self._block(s.orelse, a, eff, fi, cls_q, lf)
            out = a
            for h in s.handlers:
                b = self._block(h.body, set(W), eff, fi, cls_q, lf)
                out = self._join(out, b)
            if s.finalbody:
                out = self._block(s.finalbody, out if out is not None else set(W), eff, fi, cls_q, lf)
            return out
        if isinstance(s, (ast.FunctionDef, ast.ClassDef, ast.Import, ast.ImportFrom, ast.Pass, ast.Global, ast.Nonlocal, ast.Break, ast.Continue)):
            return W
        if isinstance(s, ast.Assert):
            R(s.test)
            return W
        if isinstance(s, ast.Delete):
            return W
        return W


def carried(exposed: Dict[str, ast.AST], may_write: Dict[str, ast.AST]) -> Dict[str, Tuple[ast.AST, str, ast.AST]]:
    """reads that observe a write of the same call set: write chain equal to, or a prefix of, the read chain"""
    out = {}
    for r, rn in exposed.items():
        for w, wn in may_write.items():
            if r == w or r.startswith(w + ".") or r.startswith(w + "["):
                out[r] = (rn, w, wn)
                break
    return out
