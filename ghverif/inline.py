"""Load-time inlining of helpers the rules cannot know by name.

The rules were written against the functions of the pinned tree (ghverif/known_functions.txt).  An extract-method refactor
moves statements of such a function into a NEW helper; rules that look at the statements of the original function would
then see a call they know nothing about.  Before anything is indexed, every call of a package function that is not on the
list and whose body has one way out (falling off its end, or a single `return` as its last statement; no try / with / nested
definitions) is replaced by that body:

    x = self._helper(a, b)      ->      <body with the parameters bound>;  x = <returned expression>

Names are kept when that cannot capture anything (an argument that is a plain name bound to a parameter of the same
name, a returned local assigned to a target of the same name), otherwise the helper's locals get a unique suffix.  The list
is a hint for the analysis, never a verdict: a defect that sits in a new helper is seen at the place the helper is used.
The helper definitions themselves stay in the tree (package-wide sweeps still see them)."""
from __future__ import annotations

import ast
import copy
import os
from typing import Dict, List, Optional

SIMPLE = (ast.Assign, ast.AugAssign, ast.Expr, ast.AnnAssign, ast.Pass)


def known_functions() -> set:
    path = os.path.join(os.path.dirname(os.path.abspath(__file__)), "known_functions.txt")
    with open(path, encoding="utf-8") as fh:
        return {ln.strip() for ln in fh if ln.strip() and not ln.startswith("#")}


def _single_exit(fn: ast.FunctionDef) -> Optional[ast.FunctionDef]:
    """a copy of fn in which every `return E` that stands in TAIL position (last statement of the body, or of a branch of an
    if whose continuation is the tail; a guard `if c: ...return` followed by more statements counts, the rest becoming its
    else) is replaced by assignments to result locals, followed by ONE final return of those locals.  None when some return
    is not in tail position (inside a loop, a try, a with) or the returns do not all have the same tuple arity."""
    body = [s for s in fn.body if not (isinstance(s, ast.Expr) and isinstance(s.value, ast.Constant))]
    rets = [x for x in ast.walk(fn) if isinstance(x, ast.Return)]
    if len(rets) <= 1 and (not rets or (body and body[-1] is rets[0])):
        return fn
    arity = None
    for r in rets:
        k = len(r.value.elts) if isinstance(r.value, ast.Tuple) else 1
        if r.value is None:
            k = 1
        if arity is None:
            arity = k
        elif arity != k:
            return None
    names = [f"rv{i}_" for i in range(arity)]
    ok = [True]

    def has_return(stmts):
        return any(isinstance(x, ast.Return) for s_ in stmts for x in ast.walk(s_))

    def assign(r):
        v = r.value if r.value is not None else ast.Constant(value=None)
        vals = list(v.elts) if isinstance(v, ast.Tuple) and arity > 1 else [v]
        return [ast.copy_location(ast.Assign(targets=[ast.Name(id=n, ctx=ast.Store())], value=copy.deepcopy(e)), r) for n, e in zip(names, vals)]

    def ends(stmts):
        return bool(stmts) and isinstance(stmts[-1], (ast.Return, ast.Raise))

    def conv(stmts):
        """stmts in tail position -> equivalent statements without return"""
        out = []
        for i, s_ in enumerate(stmts):
            last = i == len(stmts) - 1
            if isinstance(s_, ast.Return):
                if not last:
                    ok[0] = False
                out.extend(assign(s_))
                return out
            if isinstance(s_, ast.If) and (has_return(s_.body) or has_return(s_.orelse)):
                rest = stmts[i + 1:]
                new = copy.copy(s_)
                if last:
                    new.body, new.orelse = conv(s_.body), (conv(s_.orelse) if s_.orelse else [])
                    if not s_.orelse and not ends(s_.body):
                        ok[0] = False
                    out.append(new)
                    if not s_.orelse:
                        # if c: return a   as the very last statement: falling through returns None
                        new.orelse = [ast.copy_location(ast.Assign(targets=[ast.Name(id=n, ctx=ast.Store())], value=ast.Constant(value=None)), s_) for n in names]
                    return out
                # a guard followed by more statements: the rest runs only when the guard did not leave
                if ends(s_.body) and not s_.orelse:
                    new.body, new.orelse = conv(s_.body), conv(rest)
                    out.append(new)
                    return out
                if s_.orelse and ends(s_.orelse) and not has_return(s_.body):
                    new.body, new.orelse = s_.body + [], conv(s_.orelse)
                    new.body = list(s_.body) + conv(rest)
                    out.append(new)
                    return out
                if ends(s_.body) and s_.orelse and ends(s_.orelse):
                    if rest:
                        ok[0] = False
                    new.body, new.orelse = conv(s_.body), conv(s_.orelse)
                    out.append(new)
                    return out
                ok[0] = False
                return out
            if has_return([s_]):
                ok[0] = False  # a return inside a loop / try / with
                return out
            out.append(s_)
        # fell off the end of this tail: the function returns None here
        if not (out and isinstance(out[-1], ast.Raise)):
            out.extend(ast.Assign(targets=[ast.Name(id=n, ctx=ast.Store())], value=ast.Constant(value=None)) for n in names)
        return out

    new_body = conv(copy.deepcopy(body))
    if not ok[0]:
        return None
    final = ast.Return(value=ast.Tuple(elts=[ast.Name(id=n, ctx=ast.Load()) for n in names], ctx=ast.Load()) if arity > 1 else ast.Name(id=names[0], ctx=ast.Load()))
    g = copy.copy(fn)
    g.body = new_body + [final]
    for x in ast.walk(g):
        if not hasattr(x, "lineno"):
            x.lineno = fn.lineno
            x.col_offset = 0
            x.end_lineno = fn.lineno
            x.end_col_offset = 0
    return g


def _inlinable(fn: ast.FunctionDef) -> bool:
    a = fn.args
    if a.vararg or a.kwarg or fn.decorator_list and any(not (isinstance(d, ast.Name) and d.id == "staticmethod") for d in fn.decorator_list):
        return False
    body = [s for s in fn.body if not (isinstance(s, ast.Expr) and isinstance(s.value, ast.Constant))]
    if not body:
        return False
    # any statements, as long as the only way out is falling off the end or ONE return as the last statement
    n_ret = sum(1 for x in ast.walk(fn) if isinstance(x, ast.Return))
    if n_ret > 1 or (n_ret == 1 and not isinstance(body[-1], ast.Return)):
        return False
    for x in ast.walk(fn):
        if x is not fn and isinstance(x, (ast.FunctionDef, ast.AsyncFunctionDef, ast.Lambda, ast.ClassDef, ast.Yield, ast.YieldFrom, ast.Await, ast.Global, ast.Nonlocal, ast.Try, ast.With)):
            return False
        if isinstance(x, ast.Call) and isinstance(x.func, ast.Name) and x.func.id in ("locals", "vars", "super"):
            return False
    return True


class _Beta(ast.NodeTransformer):
    """(lambda a, b: E)(x, y) with plain arguments is E with a, b replaced - what is left when a table of stages is unrolled"""

    def visit_Call(self, n):
        self.generic_visit(n)
        f = n.func
        if isinstance(f, ast.Lambda) and not n.keywords and len(n.args) == len(f.args.args) and not any(isinstance(a, ast.Starred) for a in n.args) \
                and all(isinstance(a, (ast.Name, ast.Constant)) or (isinstance(a, ast.Attribute) and _chain(a)) for a in n.args):
            return _Subst({p.arg: a for p, a in zip(f.args.args, n.args)}, {}).visit(copy.deepcopy(f.body))
        return n


def _beta(node):
    return _Beta().visit(node)


class _Subst(ast.NodeTransformer):
    def __init__(self, mapping: Dict[str, ast.expr], rename: Dict[str, str]):
        self.mapping, self.rename = mapping, rename

    def visit_Name(self, n):
        if n.id in self.mapping and isinstance(n.ctx, ast.Load):
            return copy.deepcopy(self.mapping[n.id])
        if n.id in self.rename:
            return ast.copy_location(ast.Name(id=self.rename[n.id], ctx=n.ctx), n)
        return n


def _relocate(stmts: List[ast.stmt], at: ast.stmt) -> None:
    for k, s in enumerate(stmts):
        for x in ast.walk(s):
            if hasattr(x, "lineno") or isinstance(x, (ast.expr, ast.stmt)):
                x.lineno = at.lineno
                x.end_lineno = getattr(at, "end_lineno", at.lineno)
                x.col_offset = getattr(at, "col_offset", 0) + k
                x.end_col_offset = getattr(at, "end_col_offset", 0)


class _Counter:
    n = 0


def _live_after(caller: ast.FunctionDef, stmt: ast.stmt) -> set:
    """names the caller may read after `stmt` has run (conservative: everything inside a loop that contains the statement)"""
    out = set()
    end = getattr(stmt, "end_lineno", stmt.lineno)
    for x in ast.walk(caller):
        if isinstance(x, (ast.For, ast.While)) and any(y is stmt for y in ast.walk(x)):
            for z in ast.walk(x):
                if isinstance(z, ast.Name) and not any(z is w for w in ast.walk(stmt)):
                    out.add(z.id)
    for x in ast.walk(caller):
        if isinstance(x, ast.Name) and isinstance(x.ctx, (ast.Load, ast.Del)) and getattr(x, "lineno", 0) > end:
            out.add(x.id)
        if isinstance(x, ast.AugAssign) and isinstance(x.target, ast.Name) and getattr(x, "lineno", 0) > end:
            out.add(x.target.id)
    return out


def _expand(call: ast.Call, callee: ast.FunctionDef, is_method: bool, caller: ast.FunctionDef, targets_same: List[str], live_after: Optional[set] = None):
    """-> (statements, returned expression or None) for one call, or None when the arguments cannot be bound"""
    a = callee.args
    ps = [x.arg for x in a.posonlyargs + a.args]
    receiver = None
    if is_method == "receiver":
        if not ps or ps[0] != "self" or not isinstance(call.func, ast.Attribute):
            return None
        receiver = call.func.value
    if is_method and ps and ps[0] in ("self", "cls"):
        ps = ps[1:]
    if any(isinstance(x, ast.Starred) for x in call.args) or any(k.arg is None for k in call.keywords) or len(call.args) > len(ps):
        return None
    bound: Dict[str, ast.expr] = dict(zip(ps, call.args))
    allp = ps + [x.arg for x in a.kwonlyargs]
    for k in call.keywords:
        if k.arg in bound or k.arg not in allp:
            return None
        bound[k.arg] = k.value
    pos = a.posonlyargs + a.args
    for p_, d_ in zip(pos[len(pos) - len(a.defaults):], a.defaults):
        if p_.arg not in bound and p_.arg in allp:
            bound[p_.arg] = d_
    for p_, d_ in zip(a.kwonlyargs, a.kw_defaults):
        if p_.arg not in bound and d_ is not None:
            bound[p_.arg] = d_
    if any(p_ not in bound for p_ in allp):
        return None
    body = [s for s in callee.body if not (isinstance(s, ast.Expr) and isinstance(s.value, ast.Constant))]
    ret = body[-1].value if isinstance(body[-1], ast.Return) else None
    stmts = body[:-1] if isinstance(body[-1], ast.Return) else body
    stored = {x.id for s in stmts for x in ast.walk(s) if isinstance(x, ast.Name) and isinstance(x.ctx, ast.Store)}
    caller_names = {x.id for x in ast.walk(caller) if isinstance(x, ast.Name)} | {x.arg for x in caller.args.posonlyargs + caller.args.args + caller.args.kwonlyargs}
    _Counter.n += 1
    suffix = f"__inl{_Counter.n}"
    mapping: Dict[str, ast.expr] = {}
    rename: Dict[str, str] = {}
    pre: List[ast.stmt] = []
    for p_ in allp:
        arg = bound[p_]
        simple = isinstance(arg, (ast.Name, ast.Constant)) or (isinstance(arg, ast.Attribute) and _chain(arg))
        if p_ in stored or not simple:
            # the parameter is rebound in the helper, or the argument is an expression: bind it once
            if isinstance(arg, ast.Name) and arg.id == p_ and p_ not in stored:
                continue
            if isinstance(arg, ast.Name) and arg.id == p_ and live_after is not None and (p_ not in live_after or p_ in targets_same):
                continue  # the helper works on a copy of the caller's local, and the caller never looks at the old value again
            new = p_ + suffix if p_ in caller_names and not (isinstance(arg, ast.Name) and arg.id == p_) else p_
            if p_ in stored and isinstance(arg, ast.Name) and arg.id == p_:
                new = p_ + suffix
            rename[p_] = new
            pre.append(ast.Assign(targets=[ast.Name(id=new, ctx=ast.Store())], value=copy.deepcopy(arg)))
        else:
            if not (isinstance(arg, ast.Name) and arg.id == p_):
                mapping[p_] = arg
    ret_names = []
    if ret is not None:
        ret_names = [e.id for e in (ret.elts if isinstance(ret, ast.Tuple) else [ret]) if isinstance(e, ast.Name)]
    helper_names = {x.id for s in body for x in ast.walk(s) if isinstance(x, ast.Name)} | set(allp)
    # a returned local that flows straight into a caller's local takes that local's name: the hand-over disappears
    if ret is not None and targets_same and len(ret_names) == len(ret.elts if isinstance(ret, ast.Tuple) else [ret]) == len(targets_same) and len(set(ret_names)) == len(ret_names):
        for rn, tn in zip(ret_names, targets_same):
            if rn in stored and rn not in allp and (tn == rn or tn not in helper_names) and tn not in mapping.values():
                arg_names = {a_.id for a_ in bound.values() if isinstance(a_, ast.Name)}
                if tn != rn and tn in arg_names and any(isinstance(bound[p_], ast.Name) and bound[p_].id == tn and p_ in mapping for p_ in allp):
                    continue  # the caller's local is still read through a parameter after the helper rebinds it: keep them apart
                rename[rn] = tn
    for n in sorted(stored - set(allp)):
        if n in rename:
            continue
        if n in caller_names:
            rename[n] = n + suffix
    if receiver is not None:
        if any(isinstance(x, ast.Name) and x.id == "self" and isinstance(x.ctx, (ast.Store, ast.Del)) for s in body for x in ast.walk(s)):
            return None
        mapping["self"] = receiver  # the helper's `self` is the object the caller holds
    sub = _Subst(mapping, rename)
    out = pre + [sub.visit(copy.deepcopy(s)) for s in stmts]
    rexpr = sub.visit(copy.deepcopy(ret)) if ret is not None else None
    if is_method is False and any(isinstance(x, ast.Name) and x.id == "self" for s in stmts for x in ast.walk(s)):
        return None
    return out, rexpr


def _walk_no_nested(fn: ast.AST):
    """the nodes of fn without those of the functions / classes / lambdas nested in it"""
    work = list(ast.iter_child_nodes(fn))
    while work:
        n = work.pop()
        yield n
        if not isinstance(n, (ast.FunctionDef, ast.AsyncFunctionDef, ast.ClassDef, ast.Lambda)):
            work.extend(ast.iter_child_nodes(n))


def _chain(node) -> bool:
    while isinstance(node, ast.Attribute):
        node = node.value
    return isinstance(node, ast.Name)


def renumber(tree: ast.Module) -> None:
    """after statements were moved between functions their line numbers no longer say which comes first.  Every node keeps its
    source line as .src_lineno (used for reports) and gets a new .lineno that increases in program text order (used by the
    rules to ask 'before / after')."""
    counter = [1]

    def header_nodes(s):
        stack = [s]
        first = True
        while stack:
            n = stack.pop()
            if not first and isinstance(n, (ast.stmt, ast.ExceptHandler, ast.match_case)):
                continue
            first = False
            yield n
            stack.extend(ast.iter_child_nodes(n))

    def do(s):
        orig = getattr(s, "lineno", None)
        nodes = [n for n in header_nodes(s) if hasattr(n, "lineno")]
        if orig is None:
            orig = min((n.lineno for n in nodes), default=0)
        new = counter[0]
        span = 1
        for n in nodes:
            off = max(0, n.lineno - orig)
            eoff = max(off, (getattr(n, "end_lineno", None) or n.lineno) - orig)
            if not hasattr(n, "src_lineno"):
                n.src_lineno = n.lineno
            n.lineno = new + off
            n.end_lineno = new + eoff
            span = max(span, off + 1)
        counter[0] = new + span
        for fld in ("body", "handlers", "orelse", "finalbody", "cases"):
            b = getattr(s, fld, None)
            if isinstance(b, list):
                for c in b:
                    if isinstance(c, (ast.stmt, ast.ExceptHandler, ast.match_case)):
                        do(c)

    for b in tree.body:
        do(b)


def inline_unknown_helpers(trees: Dict[str, ast.Module], known: Optional[set] = None, rounds: int = 3) -> int:
    """rewrites the trees in place; returns the number of call sites expanded"""
    known = known_functions() if known is None else known
    total = 0
    touched = set()
    for _ in range(rounds):
        # index: module-level functions and methods, by qualified name
        funcs: Dict[str, ast.FunctionDef] = {}
        imports: Dict[str, Dict[str, str]] = {}
        for mod, t in trees.items():
            imports[mod] = {}
            for b in t.body:
                if isinstance(b, ast.FunctionDef):
                    funcs[f"{mod}.{b.name}"] = b
                elif isinstance(b, ast.ClassDef):
                    for c in b.body:
                        if isinstance(c, ast.FunctionDef):
                            funcs[f"{mod}.{b.name}.{c.name}"] = c
                elif isinstance(b, ast.ImportFrom) and b.module:
                    for al in b.names:
                        imports[mod][al.asname or al.name] = f"{b.module}.{al.name}"
        cand = {}
        for q, f in funcs.items():
            if q in known:
                continue
            g = _single_exit(f)
            if g is not None and _inlinable(g):
                cand[q] = g
        # closures: a nested def (not a pinned one) bound once in its enclosing function; its free variables mean at the call
        # what they mean in the expansion
        closure_map: Dict[int, Dict[str, str]] = {}
        for q, f in list(funcs.items()):
            for name, x in _nested_defs(f).items():
                qn = f"{q}.<locals>.{name}"
                if qn in known:
                    continue
                g = _single_exit(x)
                if g is not None and _inlinable(g):
                    cand[qn] = g
                    closure_map.setdefault(id(f), {})[name] = qn
        # a closure defined in both branches of an if (one generator or the other, chosen once): a call of it is that if again
        cond_defs: Dict[int, Dict[str, tuple]] = {}
        for q, f in list(funcs.items()):
            for name, (ifn, da, db) in _conditional_defs(f).items():
                if f"{q}.<locals>.{name}" in known:
                    continue
                ga, gb = _single_exit(da), _single_exit(db)
                if ga is not None and gb is not None and _inlinable(ga) and _inlinable(gb):
                    cond_defs.setdefault(id(f), {})[name] = (ifn.test, ga, gb)
        if not cand and not cond_defs:
            break
        done = 0
        parent: Dict[int, ast.FunctionDef] = {}
        for q, f in funcs.items():
            for x in _nested_defs(f).values():
                parent[id(x)] = f

        current_caller: List[Optional[ast.FunctionDef]] = [None]

        def owner_of(mod: str, cls: str, meth: str, depth: int = 0):
            """qualified name of the method as found on the class or, failing that, on its base classes (left to right, by name,
            in this module or imported from another module of the package); a definition on the way shadows what lies beyond"""
            q = f"{mod}.{cls}.{meth}"
            if q in funcs:
                return q
            if depth > 6:
                return None
            cdef = next((b for b in trees[mod].body if isinstance(b, ast.ClassDef) and b.name == cls), None) if mod in trees else None
            if cdef is None:
                return None
            for b in cdef.bases:
                bn = b.id if isinstance(b, ast.Name) else None
                if bn is None:
                    continue
                if any(isinstance(x, ast.ClassDef) and x.name == bn for x in trees[mod].body):
                    r_ = owner_of(mod, bn, meth, depth + 1)
                else:
                    tgt = imports[mod].get(bn)
                    r_ = owner_of(tgt.rsplit(".", 1)[0], tgt.rsplit(".", 1)[1], meth, depth + 1) if tgt and "." in tgt else None
                if r_ is not None:
                    return r_
            return None

        def resolve(mod: str, cls: Optional[str], call: ast.Call):
            f = call.func
            if isinstance(f, ast.Attribute) and isinstance(f.value, ast.Name) and f.value.id == "self" and cls:
                q = owner_of(mod, cls, f.attr)
                return (q, True) if q in cand else None
            if isinstance(f, ast.Name) and f.id in closure_map.get(id(current_caller[0]), {}):
                return closure_map[id(current_caller[0])][f.id], "closure"
            # a sibling closure called from inside a nested function: its free variables are the enclosing function's there as
            # well, provided the nested function does not bind a name of its own that the closure reads from outside
            encl = parent.get(id(current_caller[0]))
            if isinstance(f, ast.Name) and encl is not None and f.id != current_caller[0].name and f.id in closure_map.get(id(encl), {}):
                qn = closure_map[id(encl)][f.id]
                cal = cand[qn]
                bound_c = {a.arg for a in cal.args.args + cal.args.kwonlyargs} | {x.id for x in ast.walk(cal) if isinstance(x, ast.Name) and isinstance(x.ctx, ast.Store)}
                free_c = {x.id for x in ast.walk(cal) if isinstance(x, ast.Name) and isinstance(x.ctx, ast.Load)} - bound_c
                own = {a.arg for a in current_caller[0].args.args + current_caller[0].args.kwonlyargs} | {x.id for x in ast.walk(current_caller[0]) if isinstance(x, ast.Name) and isinstance(x.ctx, ast.Store)}
                if not (free_c & own):
                    return qn, "closure"
            if isinstance(f, ast.Name) and f.id in cond_defs.get(id(current_caller[0]), {}) and getattr(call, "lineno", 0) > cond_defs[id(current_caller[0])][f.id][0].lineno:
                return f.id, "conditional"
            if isinstance(f, ast.Name):
                q = f"{mod}.{f.id}"
                if q in cand:
                    return q, False
                q2 = imports[mod].get(f.id)
                if q2 in cand:
                    return q2, False
            if isinstance(f, ast.Attribute) and isinstance(f.value, ast.Name) and cls and f.value.id == cls:
                q = f"{mod}.{cls}.{f.attr}"
                if q in cand and any(isinstance(d, ast.Name) and d.id == "staticmethod" for d in cand[q].decorator_list):
                    return q, False
            # a helper method called on an object held in an attribute (self.ghe.helper(..)): when exactly one class of the
            # package defines a method of that name and it is not a pinned one, the call is that method with the holder as `self`
            if isinstance(f, ast.Attribute) and isinstance(f.value, ast.Attribute) and _chain(f.value):
                owners = [q_ for q_ in funcs if q_.rsplit(".", 1)[-1] == f.attr and q_.count(".") >= 2]
                if len(owners) == 1 and owners[0] in cand and not cand[owners[0]].decorator_list:
                    return owners[0], "receiver"
            return None

        def rewrite_block(body: List[ast.stmt], mod, cls, caller) -> List[ast.stmt]:
            nonlocal done
            out: List[ast.stmt] = []
            for s in body:
                current_caller[0] = caller
                for fld in ("body", "orelse", "finalbody"):
                    b = getattr(s, fld, None)
                    if isinstance(b, list) and b and isinstance(b[0], ast.stmt) and not isinstance(s, (ast.FunctionDef, ast.ClassDef)):
                        setattr(s, fld, rewrite_block(b, mod, cls, caller))
                for h in getattr(s, "handlers", []) or []:
                    h.body = rewrite_block(h.body, mod, cls, caller)
                call = None
                if isinstance(s, (ast.Assign, ast.AugAssign, ast.Return, ast.Expr)) and isinstance(getattr(s, "value", None), ast.Call):
                    call = s.value
                r = resolve(mod, cls, call) if call is not None else None
                if r is not None and r[1] != "conditional" and (cand[r[0]] is caller or cand[r[0]].name == caller.name and funcs.get(r[0]) is caller):
                    r = None
                if r is None:
                    out.append(s)
                    continue
                q, is_m = r

                def expand_with(callee):
                    tnames = []
                    if isinstance(s, ast.Assign) and len(s.targets) == 1:
                        t = s.targets[0]
                        tnames = [e.id for e in (t.elts if isinstance(t, (ast.Tuple, ast.List)) else [t]) if isinstance(e, ast.Name)]
                    ex = _expand(call, callee, is_m, caller, tnames, _live_after(caller, s))
                    if ex is None:
                        return None
                    stmts, rexpr = ex
                    tail: List[ast.stmt] = []
                    if isinstance(s, ast.Expr):
                        if rexpr is not None and any(isinstance(x, ast.Call) for x in ast.walk(rexpr)):
                            tail = [ast.Expr(value=rexpr)]
                    else:
                        if rexpr is None:
                            rexpr = ast.Constant(value=None)
                        if isinstance(s, ast.Assign):
                            t = s.targets[0] if len(s.targets) == 1 else None
                            same = t is not None and ast.dump(_as_load(t)) == ast.dump(_as_load(rexpr))
                            if not same:
                                tail = [ast.Assign(targets=copy.deepcopy(s.targets), value=rexpr)]
                        elif isinstance(s, ast.AugAssign):
                            tail = [ast.AugAssign(target=copy.deepcopy(s.target), op=s.op, value=rexpr)]
                        else:
                            tail = [ast.Return(value=rexpr)]
                    return (stmts + tail) or [ast.Pass()]

                if is_m == "conditional":
                    test, ga, gb = cond_defs[id(caller)][call.func.id]
                    na, nb = expand_with(ga), expand_with(gb)
                    new = None if na is None or nb is None else [ast.If(test=copy.deepcopy(test), body=na, orelse=nb)]
                else:
                    new = expand_with(cand[q])
                if new is None:
                    out.append(s)
                    continue
                _relocate(new, s)
                for x in new:
                    ast.fix_missing_locations(x)
                out.extend(new)
                done += 1
                touched.add(mod)
            return out

        for mod, t in trees.items():
            for b in t.body:
                if isinstance(b, ast.FunctionDef):
                    b.body = rewrite_block(b.body, mod, None, b)
                    for x in ast.walk(b):
                        if x is not b and isinstance(x, ast.FunctionDef):
                            x.body = rewrite_block(x.body, mod, None, x)
                elif isinstance(b, ast.ClassDef):
                    for c in b.body:
                        if isinstance(c, ast.FunctionDef):
                            c.body = rewrite_block(c.body, mod, b.name, c)
                            for x in ast.walk(c):
                                if x is not c and isinstance(x, ast.FunctionDef):
                                    x.body = rewrite_block(x.body, mod, b.name, x)
        total += done
        if not done:
            break
    # a helper whose every call was expanded is dead code now: drop it, so that package-wide sweeps do not see its statements twice
    if total:
        called = set()
        for t in trees.values():
            for x in ast.walk(t):
                if isinstance(x, ast.Call):
                    f = x.func
                    called.add(f.attr if isinstance(f, ast.Attribute) else (f.id if isinstance(f, ast.Name) else None))
                elif isinstance(x, (ast.Name, ast.Attribute)) and isinstance(getattr(x, "ctx", None), ast.Load):
                    called.add(x.attr if isinstance(x, ast.Attribute) else x.id)  # passed around as a value
        for t in trees.values():
            for f in [x for x in ast.walk(t) if isinstance(x, ast.FunctionDef)]:
                nd = _nested_defs(f)
                cd = _conditional_defs(f)
                if not nd and not cd:
                    continue
                used = {x.id for x in ast.walk(f) if isinstance(x, ast.Name) and isinstance(x.ctx, ast.Load)}
                dead = {id(x) for name, x in nd.items() if name not in used and not any(q_.endswith(f"{f.name}.<locals>.{name}") for q_ in known)}
                for name, (ifn, da, db) in cd.items():
                    if name not in used and not any(q_.endswith(f"{f.name}.<locals>.{name}") for q_ in known):
                        dead |= {id(da), id(db)}
                if dead:
                    _drop_stmts(f, dead)
        for mod, t in trees.items():
            def alive(b, q):
                return not (isinstance(b, ast.FunctionDef) and q not in known and b.name not in called and not b.name.startswith("__"))
            t.body = [b for b in t.body if alive(b, f"{mod}.{getattr(b, 'name', '')}")]
            for b in t.body:
                if isinstance(b, ast.ClassDef):
                    kept = [c for c in b.body if alive(c, f"{mod}.{b.name}.{getattr(c, 'name', '')}")]
                    b.body = kept or [ast.Pass()]
        for mod in touched:
            renumber(trees[mod])
    return total


def _nested_defs(f: ast.FunctionDef) -> Dict[str, ast.FunctionDef]:
    """the functions defined directly inside f (at any block depth, not inside a further def), bound to a name f binds once"""
    out: Dict[str, ast.FunctionDef] = {}
    stores: Dict[str, int] = {}
    stack = list(f.body)
    while stack:
        x = stack.pop()
        if isinstance(x, (ast.FunctionDef, ast.AsyncFunctionDef, ast.ClassDef)):
            stores[x.name] = stores.get(x.name, 0) + 1
            if isinstance(x, ast.FunctionDef):
                out[x.name] = x
            continue
        if isinstance(x, ast.Lambda):
            continue
        if isinstance(x, ast.Name) and isinstance(x.ctx, (ast.Store, ast.Del)):
            stores[x.id] = stores.get(x.id, 0) + 1
        stack.extend(ast.iter_child_nodes(x))
    return {n: x for n, x in out.items() if stores.get(n) == 1}


def _conditional_defs(f: ast.FunctionDef) -> Dict[str, tuple]:
    """name -> (if statement, def in its body, def in its else) for a name that f binds exactly twice, by one def in each
    branch of one if whose test reads only constants and names that f binds at most once (so that it has the same value at
    every later call as when the closure was chosen)"""
    stores: Dict[str, int] = {}
    for x in ast.walk(f):
        if isinstance(x, (ast.FunctionDef, ast.AsyncFunctionDef, ast.ClassDef)) and x is not f:
            stores[x.name] = stores.get(x.name, 0) + 1
        elif isinstance(x, ast.Name) and isinstance(x.ctx, (ast.Store, ast.Del)):
            stores[x.id] = stores.get(x.id, 0) + 1
    params = {a.arg for a in f.args.posonlyargs + f.args.args + f.args.kwonlyargs}
    out = {}
    stack = list(f.body)
    while stack:
        x = stack.pop()
        if isinstance(x, (ast.FunctionDef, ast.AsyncFunctionDef, ast.ClassDef, ast.Lambda)):
            continue
        if isinstance(x, ast.If) and x.orelse:
            da = [b for b in x.body if isinstance(b, ast.FunctionDef)]
            db = [b for b in x.orelse if isinstance(b, ast.FunctionDef)]
            for a_ in da:
                m = [b_ for b_ in db if b_.name == a_.name]
                if len(m) == 1 and stores.get(a_.name) == 2:
                    names = [y for y in ast.walk(x.test) if isinstance(y, ast.Name)]
                    pure = all(isinstance(y, (ast.Name, ast.Constant, ast.Compare, ast.BoolOp, ast.UnaryOp, ast.cmpop, ast.boolop, ast.unaryop, ast.expr_context)) for y in ast.walk(x.test))
                    if pure and all(stores.get(y.id, 0) + (1 if y.id in params else 0) <= 1 for y in names):
                        out[a_.name] = (x, a_, m[0])
        stack.extend(ast.iter_child_nodes(x))
    return out


def _drop_stmts(f: ast.AST, dead: set) -> None:
    for x in ast.walk(f):
        for fld in ("body", "orelse", "finalbody"):
            b = getattr(x, fld, None)
            if isinstance(b, list) and any(id(y) in dead for y in b):
                kept = [y for y in b if id(y) not in dead]
                setattr(x, fld, kept or [ast.Pass()])


def _as_load(e: ast.expr) -> ast.expr:
    e = copy.deepcopy(e)
    for x in ast.walk(e):
        if hasattr(x, "ctx"):
            x.ctx = ast.Load()
    return e


# ---------------------------------------------------------------------------
# partial(self.helper, method=method)  handed on as a callback   is read as the nested closure it stands for
# ---------------------------------------------------------------------------
def close_partials(trees: Dict[str, ast.Module], known: Optional[set] = None) -> int:
    """`functools.partial(self.m, a, k=b)` inside a method, with m a method of the same class that is not a pinned one and the
    bound arguments names / constants / attribute chains that the enclosing function does not re-assign, becomes a reference to
    a nested function `m_bound(<remaining parameters>)` whose body is m's with the bound parameters replaced - the form in which
    a callback that closes over its context is normally written (and in which the rules know it).  Returns the number rewritten."""
    known = known_functions() if known is None else known
    done = 0
    touched = set()
    for mod, t in trees.items():
        for cls in [b for b in t.body if isinstance(b, ast.ClassDef)]:
            methods = {m.name: m for m in cls.body if isinstance(m, ast.FunctionDef)}
            for f in list(methods.values()):
                stores: Dict[str, int] = {}
                for x in ast.walk(f):
                    if isinstance(x, ast.Name) and isinstance(x.ctx, (ast.Store, ast.Del)):
                        stores[x.id] = stores.get(x.id, 0) + 1

                def simple(e):
                    return isinstance(e, ast.Constant) or (isinstance(e, ast.Name) and stores.get(e.id, 0) == 0) or (isinstance(e, ast.Attribute) and _chain(e) and stores.get((_chain_text(e) or "?").split(".")[0], 0) == 0)

                def rewrite(body):
                    nonlocal done
                    out = []
                    for s_ in body:
                        for fld in ("body", "orelse", "finalbody"):
                            b = getattr(s_, fld, None)
                            if isinstance(b, list) and b and isinstance(b[0], ast.stmt) and not isinstance(s_, (ast.FunctionDef, ast.ClassDef)):
                                setattr(s_, fld, rewrite(b))
                        for h in getattr(s_, "handlers", []) or []:
                            h.body = rewrite(h.body)
                        pre = []
                        if not isinstance(s_, (ast.FunctionDef, ast.ClassDef, ast.For, ast.While, ast.If, ast.With, ast.Try)):
                            for c in [x for x in ast.walk(s_) if isinstance(x, ast.Call)]:
                                fn_ = _chain_text(c.func) if isinstance(c.func, (ast.Name, ast.Attribute)) else None
                                if fn_ not in ("partial", "functools.partial") or not c.args:
                                    continue
                                tgt = c.args[0]
                                if not (isinstance(tgt, ast.Attribute) and isinstance(tgt.value, ast.Name) and tgt.value.id == "self" and tgt.attr in methods):
                                    continue
                                m = methods[tgt.attr]
                                if f"{mod}.{cls.name}.{m.name}" in known or m is f or m.decorator_list or m.args.vararg or m.args.kwarg:
                                    continue
                                ps = [a.arg for a in m.args.posonlyargs + m.args.args]
                                if not ps or ps[0] != "self":
                                    continue
                                ps = ps[1:]
                                pos, kws = c.args[1:], c.keywords
                                if any(isinstance(a, ast.Starred) for a in pos) or any(k.arg is None for k in kws) or len(pos) > len(ps):
                                    continue
                                bound = dict(zip(ps, pos))
                                okb = True
                                for k in kws:
                                    if k.arg in bound or k.arg not in ps + [a.arg for a in m.args.kwonlyargs]:
                                        okb = False
                                    bound[k.arg] = k.value
                                if not okb or not all(simple(v) for v in bound.values()):
                                    continue
                                rest = [p_ for p_ in ps if p_ not in bound]
                                m_stores = {x.id for x in ast.walk(m) if isinstance(x, ast.Name) and isinstance(x.ctx, (ast.Store, ast.Del))}
                                if m_stores & set(bound):
                                    continue  # the helper re-assigns a bound parameter
                                name = f"{m.name.lstrip('_')}_bound"
                                if name in stores or any(isinstance(x, ast.Name) and x.id == name for x in ast.walk(f)):
                                    continue
                                sub = _Subst({k: v for k, v in bound.items()}, {})
                                body_ = [sub.visit(copy.deepcopy(b_)) for b_ in m.body if not (isinstance(b_, ast.Expr) and isinstance(b_.value, ast.Constant))]
                                fd = ast.FunctionDef(name=name, args=ast.arguments(posonlyargs=[], args=[ast.arg(arg=p_) for p_ in rest], kwonlyargs=[], kw_defaults=[], defaults=[]),
                                                     body=body_ or [ast.Pass()], decorator_list=[], returns=None, type_params=[])
                                pre.append(fd)
                                # replace the partial(...) call by the closure's name
                                class R(ast.NodeTransformer):
                                    def visit_Call(self, n):
                                        if n is c:
                                            return ast.Name(id=name, ctx=ast.Load())
                                        return self.generic_visit(n)
                                s_ = R().visit(s_)
                                stores[name] = 1
                                done += 1
                                touched.add(mod)
                        # a lambda that only forwards to an unpinned method (lambda h: self._excess_at_height(h, method)) is the nested
                        # function `def m_bound(h): return self._excess_at_height(h, method)`; the helper inliner then expands the call
                        if not isinstance(s_, (ast.FunctionDef, ast.ClassDef, ast.For, ast.While, ast.If, ast.With, ast.Try)):
                            for lam in [x for x in ast.walk(s_) if isinstance(x, ast.Lambda)]:
                                b_ = lam.body
                                if not (isinstance(b_, ast.Call) and isinstance(b_.func, ast.Attribute) and isinstance(b_.func.value, ast.Name) and b_.func.value.id == "self" and b_.func.attr in methods):
                                    continue
                                m = methods[b_.func.attr]
                                if f"{mod}.{cls.name}.{m.name}" in known or m is f or lam.args.vararg or lam.args.kwarg or lam.args.defaults or lam.args.kw_defaults:
                                    continue
                                name = f"{m.name.lstrip('_')}_bound"
                                if name in stores or any(isinstance(x, ast.Name) and x.id == name for x in ast.walk(f)):
                                    continue
                                fd = ast.FunctionDef(name=name, args=copy.deepcopy(lam.args), body=[ast.Return(value=copy.deepcopy(b_))], decorator_list=[], returns=None, type_params=[])
                                pre.append(fd)

                                class RL(ast.NodeTransformer):
                                    def visit_Lambda(self, n):
                                        if n is lam:
                                            return ast.Name(id=name, ctx=ast.Load())
                                        return self.generic_visit(n)
                                s_ = RL().visit(s_)
                                stores[name] = 1
                                done += 1
                                touched.add(mod)
                        if pre:
                            _relocate(pre, s_)
                            for x in pre + [s_]:
                                ast.fix_missing_locations(x)
                        out.extend(pre)
                        out.append(s_)
                    return out

                f.body = rewrite(f.body)
    for mod in touched:
        renumber(trees[mod])
    return done


# ---------------------------------------------------------------------------
# records:  m = MonthSummary(peak=self.peaks[i], day=self.days[i]) ; ... m.peak ...   is read as   self.peaks[i]
# ---------------------------------------------------------------------------
def propagate_record_fields(trees: Dict[str, ast.Module]) -> int:
    """a local bound once to the construction of a plain record class of the package (a NamedTuple or dataclass: nothing but
    annotated fields, no __init__ / __post_init__ / properties), whose field values are names, constants, attribute chains,
    subscripts or arithmetic of those, and which is afterwards only READ through its fields, stands for those values - as long as nothing in
    the statements that follow (same block and below) re-assigns a name the values mention, stores into or mutates in place a
    container they read, or calls a method on `self`.  `m.field` is replaced by the field's value.  Returns the number of
    records resolved."""
    records: Dict[str, List[str]] = {}
    for t in trees.values():
        for c in [b for b in t.body if isinstance(b, ast.ClassDef)]:
            bases = {_chain_text(b_) or "" for b_ in c.bases}
            decos = {(_chain_text(d.func) if isinstance(d, ast.Call) else _chain_text(d)) or "" for d in c.decorator_list}
            if not ({"NamedTuple", "typing.NamedTuple"} & bases or {"dataclass", "dataclasses.dataclass"} & decos):
                continue
            body = [b_ for b_ in c.body if not (isinstance(b_, ast.Expr) and isinstance(b_.value, ast.Constant))]
            if body and all(isinstance(b_, ast.AnnAssign) and isinstance(b_.target, ast.Name) for b_ in body):
                records[c.name] = [b_.target.id for b_ in body]
    if not records:
        return 0
    done = 0
    touched = set()

    # functions of the package that only compute: no store to an attribute / element, no global, no in-place method on anything
    shallow_pure = set()
    impure = set()
    for t in trees.values():
        for f_ in [x for x in ast.walk(t) if isinstance(x, ast.FunctionDef)]:
            bad = any((isinstance(x, (ast.Attribute, ast.Subscript)) and isinstance(x.ctx, (ast.Store, ast.Del))) or isinstance(x, (ast.Global, ast.Nonlocal, ast.Yield, ast.YieldFrom))
                      or (isinstance(x, ast.Call) and isinstance(x.func, ast.Attribute) and x.func.attr in ("append", "extend", "insert", "pop", "remove", "clear", "sort", "reverse", "update", "write", "writerows"))
                      or (isinstance(x, ast.Call) and isinstance(x.func, ast.Name) and x.func.id in ("print", "open", "exit"))
                      for x in ast.walk(f_))
            (impure if bad else shallow_pure).add(f_.name)
    shallow_pure -= impure
    PURE_BUILTINS = {"max", "min", "len", "abs", "float", "int", "sum", "round", "floor", "ceil", "sqrt", "log", "exp", "str", "bool", "tuple", "list"}

    def pure(e):
        for x in ast.walk(e):
            if isinstance(x, (ast.Name, ast.Constant, ast.Attribute, ast.Subscript, ast.expr_context, ast.keyword, ast.BinOp, ast.UnaryOp, ast.operator, ast.unaryop)):
                continue  # arithmetic on those computes a value and changes nothing
            if isinstance(x, ast.Call):
                fn_ = x.func
                nm = fn_.id if isinstance(fn_, ast.Name) else (fn_.attr if isinstance(fn_, ast.Attribute) else None)
                if nm in PURE_BUILTINS or nm == "index" or (nm in shallow_pure and (isinstance(fn_, ast.Name) or (isinstance(fn_.value, ast.Name) and fn_.value.id in ("self", "cls")))):
                    continue
                return False
            return False
        return True

    for mod, t in trees.items():
        for fn in [x for x in ast.walk(t) if isinstance(x, ast.FunctionDef)]:
            stores: Dict[str, int] = {}
            for x in ast.walk(fn):
                if isinstance(x, ast.Name) and isinstance(x.ctx, (ast.Store, ast.Del)):
                    stores[x.id] = stores.get(x.id, 0) + 1
            blocks = []
            for x in ast.walk(fn):
                for fld in ("body", "orelse", "finalbody"):
                    b = getattr(x, fld, None)
                    if isinstance(b, list) and b and isinstance(b[0], ast.stmt):
                        blocks.append(b)
            for block in blocks:
                for i, s_ in enumerate(list(block)):
                    if not (isinstance(s_, ast.Assign) and len(s_.targets) == 1 and isinstance(s_.targets[0], ast.Name) and isinstance(s_.value, ast.Call)
                            and isinstance(s_.value.func, ast.Name) and s_.value.func.id in records and stores.get(s_.targets[0].id) == 1):
                        continue
                    name, call = s_.targets[0].id, s_.value
                    fields = records[call.func.id]
                    if any(isinstance(a, ast.Starred) for a in call.args) or any(k.arg is None for k in call.keywords) or len(call.args) > len(fields):
                        continue
                    vals = dict(zip(fields, call.args))
                    vals.update({k.arg: k.value for k in call.keywords})
                    if set(vals) != set(fields) or not all(pure(v) for v in vals.values()):
                        continue
                    region = block[i + 1:]
                    uses = [x for x in ast.walk(fn) if isinstance(x, ast.Name) and x.id == name and isinstance(x.ctx, ast.Load)]
                    in_region = {id(x) for st_ in region for x in ast.walk(st_)}
                    attr_uses = [x for st_ in region for x in ast.walk(st_) if isinstance(x, ast.Attribute) and isinstance(x.value, ast.Name) and x.value.id == name and x.attr in fields and isinstance(x.ctx, ast.Load)]
                    if not uses or any(id(u) not in in_region for u in uses) or len(attr_uses) != len(uses):
                        continue
                    read_names = {x.id for v in vals.values() for x in ast.walk(v) if isinstance(x, ast.Name)}
                    read_chains = {_chain_text(x) for v in vals.values() for x in ast.walk(v) if isinstance(x, ast.Attribute) and _chain_text(x)}
                    # an enclosing loop repeats the region's statements BEFORE the binding too: they count as well
                    scope = list(region)
                    for lp in ast.walk(fn):
                        if isinstance(lp, (ast.For, ast.While)) and any(s_ is y for y in ast.walk(lp)):
                            scope = list(lp.body) + list(lp.orelse)
                    bad = False
                    for st_ in scope:
                        for x in ast.walk(st_):
                            if isinstance(x, ast.Name) and isinstance(x.ctx, (ast.Store, ast.Del)) and x.id in read_names:
                                bad = True
                            if isinstance(x, (ast.Attribute, ast.Subscript)) and isinstance(x.ctx, (ast.Store, ast.Del)):
                                base = x.value if isinstance(x, ast.Subscript) else x
                                c = _chain_text(base)
                                if c and any(rc == c or rc.startswith(c + ".") or c.startswith(rc + ".") for rc in read_chains):
                                    bad = True
                            if isinstance(x, ast.Call) and isinstance(x.func, ast.Attribute):
                                oc = _chain_text(x.func.value)
                                if oc in read_chains and x.func.attr in ("append", "extend", "insert", "pop", "remove", "clear", "sort", "reverse", "update"):
                                    bad = True
                                if oc == "self" and "self" in read_names and x.func.attr not in shallow_pure:
                                    bad = True
                    if bad:
                        continue

                    class R(ast.NodeTransformer):
                        def visit_Attribute(self, n):
                            if isinstance(n.value, ast.Name) and n.value.id == name and n.attr in vals and isinstance(n.ctx, ast.Load):
                                return ast.copy_location(copy.deepcopy(vals[n.attr]), n)
                            return self.generic_visit(n)

                    for st_ in region:
                        block[block.index(st_)] = R().visit(st_)
                    block.remove(s_)
                    for x in ast.walk(fn):
                        ast.fix_missing_locations(x) if isinstance(x, ast.stmt) else None
                    done += 1
                    touched.add(mod)
    if done:
        # a record class nothing constructs any more is dead code for the analysis
        for mod in touched:
            renumber(trees[mod])
    return done


# ---------------------------------------------------------------------------
# attribute aliases:  bhe = self.ghe.bhe ; ... bhe.b.H ...   is read as   self.ghe.bhe.b.H
# ---------------------------------------------------------------------------
def _chain_text(node) -> Optional[str]:
    parts = []
    while isinstance(node, ast.Attribute):
        parts.append(node.attr)
        node = node.value
    if isinstance(node, ast.Name):
        parts.append(node.id)
        return ".".join(reversed(parts))
    return None


def propagate_attribute_aliases(trees: Dict[str, ast.Module]) -> int:
    """a local that is bound ONCE, at the top level of a function, to an attribute chain (al = self.x.y) and is only read
    afterwards stands for that chain as long as nothing can rebind the chain: the function stores to no prefix of it, does
    not rebind its root, and - when the first attribute is one that some method outside a constructor assigns - calls nothing
    on the root object.  Reads of the local are replaced by the chain, so that rules which recognise `self.x.y.z` by its
    spelling see the same thing whether or not a refactor introduced the local.  Returns the number of aliases resolved."""
    rebindable = set()
    for t in trees.values():
        for cls in [b for b in t.body if isinstance(b, ast.ClassDef)]:
            for m in cls.body:
                if isinstance(m, ast.FunctionDef) and m.name != "__init__":
                    for x in ast.walk(m):
                        if isinstance(x, ast.Attribute) and isinstance(x.ctx, (ast.Store, ast.Del)) and isinstance(x.value, ast.Name) and x.value.id == "self":
                            rebindable.add(x.attr)
    done = 0

    def do_function(fn: ast.FunctionDef):
        nonlocal done
        stores = {}
        for x in ast.walk(fn):
            if isinstance(x, ast.Name) and isinstance(x.ctx, (ast.Store, ast.Del)):
                stores[x.id] = stores.get(x.id, 0) + 1
            elif isinstance(x, ast.arg):
                stores[x.arg] = stores.get(x.arg, 0) + 1
            elif isinstance(x, (ast.Global, ast.Nonlocal)):
                for n_ in x.names:
                    stores[n_] = stores.get(n_, 0) + 2
        attr_stores = set()
        for x in ast.walk(fn):
            if isinstance(x, ast.Attribute) and isinstance(x.ctx, (ast.Store, ast.Del)):
                c = _chain_text(x)
                if c:
                    attr_stores.add(c)
        nested = [x for x in ast.walk(fn) if x is not fn and isinstance(x, (ast.FunctionDef, ast.Lambda))]
        for s in list(fn.body):
            if not (isinstance(s, ast.Assign) and len(s.targets) == 1 and isinstance(s.targets[0], ast.Name) and isinstance(s.value, ast.Attribute)):
                continue
            a = s.targets[0].id
            chain = _chain_text(s.value)
            if chain is None or stores.get(a, 0) != 1:
                continue
            parts = chain.split(".")
            root = parts[0]
            if stores.get(root, 0) > (1 if root in [x.arg for x in fn.args.args + fn.args.kwonlyargs] else 0):
                continue
            prefixes = {".".join(parts[:k]) for k in range(2, len(parts) + 1)}
            if prefixes & attr_stores:
                continue
            if parts[1] in rebindable:
                calls_root = any(isinstance(x, ast.Call) and ((isinstance(x.func, ast.Attribute) and isinstance(x.func.value, ast.Name) and x.func.value.id == root)
                                                               or any(isinstance(g, ast.Name) and g.id == root for g in x.args)) for x in ast.walk(fn))
                if calls_root:
                    continue
            capturing = [nf for nf in nested if any(isinstance(y, ast.Name) and y.id == a for y in ast.walk(nf))]
            if any(root in [p_.arg for p_ in nf.args.args + nf.args.kwonlyargs + nf.args.posonlyargs] or a in [p_.arg for p_ in nf.args.args + nf.args.kwonlyargs + nf.args.posonlyargs]
                   or getattr(nf, "lineno", 0) < s.lineno for nf in capturing):
                continue  # the closure has its own `root` / alias name, or exists before the alias does: leave it
            line = s.lineno
            uses = [x for x in ast.walk(fn) if isinstance(x, ast.Name) and x.id == a and isinstance(x.ctx, ast.Load)]
            if not uses or any(getattr(u, "lineno", 0) < line for u in uses):
                continue

            class R(ast.NodeTransformer):
                def visit_Name(self, n):
                    if n.id == a and isinstance(n.ctx, ast.Load):
                        return ast.copy_location(copy.deepcopy(s.value), n)
                    return n

            for k, st_ in enumerate(fn.body):
                if st_ is not s:
                    fn.body[k] = R().visit(st_)
            fn.body.remove(s)  # every read was replaced: the binding itself is a dead store of a plain attribute read
            if not fn.body:
                fn.body.append(ast.Pass())
            for x in ast.walk(fn):
                ast.fix_missing_locations(x) if isinstance(x, ast.stmt) else None
            done += 1

    # ---- flow-sensitive form, for what the rule above leaves: the alias is bound once, anywhere, and every read of it stands in
    # the statements that follow it in the same block, before (or as an argument of) the first statement that could rebind
    # the chain.  What a method called on `self` may rebind is the union, over the methods of that name, of the attributes
    # they store to - followed through their own calls on self.
    direct: Dict[str, set] = {}
    calls_self: Dict[str, set] = {}
    for t in trees.values():
        for cls in [b for b in t.body if isinstance(b, ast.ClassDef)]:
            for m in cls.body:
                if isinstance(m, ast.FunctionDef):
                    w = direct.setdefault(m.name, set())
                    cs = calls_self.setdefault(m.name, set())
                    for x in ast.walk(m):
                        if isinstance(x, ast.Attribute) and isinstance(x.ctx, (ast.Store, ast.Del)) and isinstance(x.value, ast.Name) and x.value.id == "self":
                            w.add(x.attr)
                        if isinstance(x, ast.Call) and isinstance(x.func, ast.Attribute) and isinstance(x.func.value, ast.Name) and x.func.value.id == "self":
                            cs.add(x.func.attr)
                        if isinstance(x, ast.Call) and any(isinstance(g, ast.Name) and g.id == "self" for g in list(x.args) + [k.value for k in x.keywords]):
                            cs.add("*")
    mwrites: Dict[str, Optional[set]] = {}

    def writes_of(name: str, seen=()) -> Optional[set]:
        """attributes of self a method of this name may rebind; None = anything"""
        if name in mwrites:
            return mwrites[name]
        if name not in direct or name in seen:
            return set() if name in seen else None
        out = set(direct[name])
        for c in calls_self[name]:
            if c == "*":
                mwrites[name] = None
                return None
            sub = writes_of(c, seen + (name,))
            if sub is None:
                if c in direct:
                    mwrites[name] = None
                    return None
                continue  # an attribute that holds a callable, not a method
            out |= sub
        mwrites[name] = out
        return out

    def flow_function(fn: ast.FunctionDef):
        nonlocal done
        stores = {}
        for x in ast.walk(fn):
            if isinstance(x, ast.Name) and isinstance(x.ctx, (ast.Store, ast.Del)):
                stores[x.id] = stores.get(x.id, 0) + 1
            elif isinstance(x, ast.arg):
                stores[x.arg] = stores.get(x.arg, 0) + 1
            elif isinstance(x, (ast.Global, ast.Nonlocal)):
                for n_ in x.names:
                    stores[n_] = stores.get(n_, 0) + 2
        nested = [x for x in ast.walk(fn) if x is not fn and isinstance(x, (ast.FunctionDef, ast.Lambda))]
        blocks = []
        for x in ast.walk(fn):
            if x is not fn and isinstance(x, (ast.FunctionDef, ast.Lambda, ast.ClassDef)):
                continue
            for fld in ("body", "orelse", "finalbody"):
                b = getattr(x, fld, None)
                if isinstance(b, list) and b and isinstance(b[0], ast.stmt):
                    blocks.append(b)
        for block in blocks:
            for i, s in enumerate(block):
                if not (isinstance(s, ast.Assign) and len(s.targets) == 1 and isinstance(s.targets[0], ast.Name) and isinstance(s.value, ast.Attribute)):
                    continue
                a = s.targets[0].id
                chain = _chain_text(s.value)
                if chain is None or stores.get(a, 0) != 1:
                    continue
                parts = chain.split(".")
                root = parts[0]
                if stores.get(root, 0) > (1 if root in [x.arg for x in fn.args.args + fn.args.kwonlyargs] else 0):
                    continue
                if any(isinstance(y, ast.Name) and y.id == a for nf in nested for y in ast.walk(nf)):
                    continue
                prefixes = {".".join(parts[:k]) for k in range(2, len(parts) + 1)}
                objs = {".".join(parts[:k]): parts[k] for k in range(1, len(parts))}  # object chain -> the attribute of it the alias goes through

                def uses_in(node):
                    return [x for x in ast.walk(node) if isinstance(x, ast.Name) and x.id == a and isinstance(x.ctx, ast.Load)]

                def dangerous_calls(node):
                    out = []
                    for x in ast.walk(node):
                        if not isinstance(x, ast.Call):
                            continue
                        hit = False
                        if isinstance(x.func, ast.Attribute):
                            oc = _chain_text(x.func.value)
                            if oc in objs:
                                if oc == root and root == "self":
                                    w = writes_of(x.func.attr)
                                    hit = w is None or objs[oc] in w
                                else:
                                    hit = objs[oc] in rebindable
                        for g in list(x.args) + [k.value for k in x.keywords]:
                            gc = _chain_text(g) if isinstance(g, (ast.Attribute, ast.Name)) else None
                            if gc in objs and objs[gc] in rebindable:
                                hit = True
                        if hit:
                            out.append(x)
                    return out

                def prefix_stores(node):
                    return [x for x in ast.walk(node) if isinstance(x, ast.Attribute) and isinstance(x.ctx, (ast.Store, ast.Del)) and _chain_text(x) in prefixes]

                all_uses = uses_in(fn)
                region = block[i + 1:]
                in_region = {id(u) for st_ in region for u in uses_in(st_)}
                if not all_uses or any(id(u) not in in_region for u in all_uses):
                    continue
                valid = True
                ok = True
                todo = []
                for st_ in region:
                    us = uses_in(st_)
                    if not valid:
                        if us:
                            ok = False
                            break
                        continue
                    dc = dangerous_calls(st_)
                    ps = prefix_stores(st_)
                    if not dc and not ps:
                        todo.append(st_)
                        continue
                    compound = any(isinstance(getattr(st_, fld, None), list) and getattr(st_, fld) and isinstance(getattr(st_, fld)[0], ast.stmt) for fld in ("body", "orelse", "finalbody"))
                    if us:
                        if compound or len(dc) > 1:
                            ok = False
                            break
                        if dc:
                            # the reads must all be arguments of the call that may rebind: they are evaluated before it runs
                            inside = {id(y) for g in list(dc[0].args) + [k.value for k in dc[0].keywords] for y in ast.walk(g)}
                            if any(id(u) not in inside for u in us):
                                ok = False
                                break
                        if ps and not (isinstance(st_, ast.Assign) and all(id(u) in {id(y) for y in ast.walk(st_.value)} for u in us)):
                            ok = False
                            break
                        todo.append(st_)
                    valid = False
                if not ok or not todo:
                    continue

                class R(ast.NodeTransformer):
                    def visit_Name(self, n):
                        if n.id == a and isinstance(n.ctx, ast.Load):
                            return ast.copy_location(copy.deepcopy(s.value), n)
                        return n

                for st_ in todo:
                    block[block.index(st_)] = R().visit(st_)
                block.remove(s)
                for x in ast.walk(fn):
                    ast.fix_missing_locations(x) if isinstance(x, ast.stmt) else None
                done += 1

    def store_and_keep(fn: ast.FunctionDef):
        """x = V ; self.a = x   (adjacent, x bound once)   is   self.a = V ; x = self.a : the local is an alias of the attribute from
        then on, which the passes below resolve where the attribute is stable"""
        stores = {}
        for y in ast.walk(fn):
            if isinstance(y, ast.Name) and isinstance(y.ctx, (ast.Store, ast.Del)):
                stores[y.id] = stores.get(y.id, 0) + 1
        for y in ast.walk(fn):
            for fld in ("body", "orelse", "finalbody"):
                b = getattr(y, fld, None)
                if not (isinstance(b, list) and b and isinstance(b[0], ast.stmt)):
                    continue
                for i in range(len(b) - 1):
                    s1, s2 = b[i], b[i + 1]
                    if isinstance(s1, ast.Assign) and len(s1.targets) == 1 and isinstance(s1.targets[0], ast.Name) and stores.get(s1.targets[0].id) == 1 \
                            and isinstance(s2, ast.Assign) and len(s2.targets) == 1 and isinstance(s2.targets[0], ast.Attribute) and _chain_text(s2.targets[0]) \
                            and isinstance(s2.value, ast.Name) and s2.value.id == s1.targets[0].id and not isinstance(s1.value, (ast.Attribute, ast.Name, ast.Constant)):
                        x_, chain_ = s1.targets[0], s2.targets[0]
                        n1 = ast.copy_location(ast.Assign(targets=[chain_], value=s1.value), s1)
                        load = copy.deepcopy(chain_)
                        for z in ast.walk(load):
                            if hasattr(z, "ctx"):
                                z.ctx = ast.Load()
                        n2 = ast.copy_location(ast.Assign(targets=[x_], value=load), s2)
                        b[i], b[i + 1] = n1, n2
                        ast.fix_missing_locations(n1)
                        ast.fix_missing_locations(n2)

    for t in trees.values():
        for x in ast.walk(t):
            if isinstance(x, ast.FunctionDef):
                store_and_keep(x)
    # an alias of an alias ( search = self._search; ghe = search.ghe ) becomes resolvable once the first one is: repeat while it helps
    for _ in range(3):
        before = done
        for t in trees.values():
            for x in ast.walk(t):
                if isinstance(x, ast.FunctionDef):
                    do_function(x)
        for t in trees.values():
            for x in ast.walk(t):
                if isinstance(x, ast.FunctionDef):
                    flow_function(x)
        if done == before:
            break
    return done


# ---------------------------------------------------------------------------
# [helper(n) for n in xs]  /  out.append(helper(n))   are read as the loop and the statements they stand for
# ---------------------------------------------------------------------------
def _unknown_callee_names(trees: Dict[str, ast.Module], known: set) -> set:
    """simple names of the functions (module level, methods, closures) that are not pinned ones"""
    out = set()
    for mod, t in trees.items():
        def visit(f, q):
            if q not in known:
                out.add(f.name)
            for name, x in _nested_defs(f).items():
                visit(x, f"{q}.<locals>.{name}")
        for b in t.body:
            if isinstance(b, ast.FunctionDef):
                visit(b, f"{mod}.{b.name}")
            elif isinstance(b, ast.ClassDef):
                for c in b.body:
                    if isinstance(c, ast.FunctionDef):
                        visit(c, f"{mod}.{b.name}.{c.name}")
    return {n for n in out if not n.startswith("__")}


def _pure_looking(e: ast.AST, allow: set) -> bool:
    """nothing but names, constants, attribute chains, subscripts, arithmetic and comparisons (and the nodes in `allow`)"""
    for x in ast.walk(e):
        if id(x) in allow:
            continue
        if isinstance(x, ast.Call) and isinstance(x.func, ast.Name) and x.func.id in ("len", "abs", "float", "int", "min", "max", "sum", "round", "str", "bool") and not x.keywords:
            continue  # a builtin that only looks at its arguments
        if not isinstance(x, (ast.Name, ast.Constant, ast.Attribute, ast.Subscript, ast.Slice, ast.BinOp, ast.UnaryOp, ast.Compare, ast.BoolOp, ast.Tuple, ast.List,
                              ast.operator, ast.unaryop, ast.cmpop, ast.boolop, ast.expr_context, ast.keyword)):
            return False
    return True


def expand_helper_comprehensions(trees: Dict[str, ast.Module], known: Optional[set] = None) -> int:
    """(a) a list comprehension with one generator whose element calls a helper that is not a pinned function, standing as the
    value of `name = [..]`, `name = [literal, ..] + [..]`, `return [..]` or `return [literal, ..] + [..]`, becomes the loop
    with an append it abbreviates (a comprehension variable that the function also uses elsewhere is renamed);
    (b) such a call nested in an otherwise call-free statement (`out.append(helper(n))`, `x = a + helper(n)`) is bound to a
    temporary first.  The helper inliner then shows the helper's statements in place.  Returns the number of rewrites."""
    known = known_functions() if known is None else known
    unknown = _unknown_callee_names(trees, known)
    if not unknown:
        return 0
    done = 0
    touched = set()
    counter = [0]

    def helper_calls(e: ast.AST) -> List[ast.Call]:
        out = []
        for x in ast.walk(e):
            if isinstance(x, ast.Call):
                f = x.func
                if isinstance(f, ast.Name) and f.id in unknown:
                    out.append(x)
                elif isinstance(f, ast.Attribute) and isinstance(f.value, ast.Name) and f.attr in unknown:
                    out.append(x)
        return out

    def comp_of(v):
        """-> (prefix list literal or None, the comprehension) for the accepted value shapes"""
        if isinstance(v, ast.ListComp):
            return None, v
        if isinstance(v, ast.BinOp) and isinstance(v.op, ast.Add) and isinstance(v.left, ast.List) and isinstance(v.right, ast.ListComp) \
                and all(isinstance(e, ast.Constant) for e in v.left.elts):
            return v.left, v.right
        return None

    def hoist(stmt: ast.stmt, fn_names: set) -> List[ast.stmt]:
        """(b) for one simple statement"""
        nonlocal done
        if not isinstance(stmt, (ast.Assign, ast.AugAssign, ast.Return, ast.Expr)) or stmt.value is None:
            return [stmt]
        v = stmt.value
        calls = helper_calls(v)
        if not calls or any(c is v for c in calls):
            return [stmt]
        outer_ok = set()
        if isinstance(stmt, ast.Expr) and isinstance(v, ast.Call) and isinstance(v.func, ast.Attribute) and v.func.attr in ("append", "extend") and len(v.args) == 1 and not v.keywords:
            outer_ok = {id(v)}
        top = [c for c in calls if not any(c is not d and any(c is y for y in ast.walk(d)) for d in calls)]
        allow = outer_ok | {id(y) for c in top for y in ast.walk(c)}
        if not _pure_looking(v, allow) or any(not _pure_looking(a_, set()) for c in top for a_ in list(c.args) + [k.value for k in c.keywords]):
            return [stmt]
        pre = []
        mp = {}
        for c in top:
            counter[0] += 1
            nm = f"hv{counter[0]}_"
            while nm in fn_names:
                counter[0] += 1
                nm = f"hv{counter[0]}_"
            mp[id(c)] = nm
            pre.append(ast.Assign(targets=[ast.Name(id=nm, ctx=ast.Store())], value=c))

        class R(ast.NodeTransformer):
            def visit_Call(self, n):
                if id(n) in mp:
                    return ast.Name(id=mp[id(n)], ctx=ast.Load())
                return self.generic_visit(n)

        stmt.value = R().visit(v)
        new = pre + [stmt]
        _relocate(pre, stmt)
        for x in new:
            ast.fix_missing_locations(x)
        done += 1
        return new

    def rewrite(body: List[ast.stmt], fn: ast.FunctionDef, fn_names: set) -> List[ast.stmt]:
        nonlocal done
        out: List[ast.stmt] = []
        for s_ in body:
            if isinstance(s_, (ast.FunctionDef, ast.AsyncFunctionDef, ast.ClassDef)):
                out.append(s_)
                continue
            for fld in ("body", "orelse", "finalbody"):
                b = getattr(s_, fld, None)
                if isinstance(b, list) and b and isinstance(b[0], ast.stmt):
                    setattr(s_, fld, rewrite(b, fn, fn_names))
            for h in getattr(s_, "handlers", []) or []:
                h.body = rewrite(h.body, fn, fn_names)
            shape = None
            if isinstance(s_, ast.Return) and s_.value is not None:
                shape = comp_of(s_.value)
            elif isinstance(s_, ast.Assign) and len(s_.targets) == 1 and isinstance(s_.targets[0], ast.Name):
                shape = comp_of(s_.value)
            if shape is not None:
                prefix, comp = shape
                g = comp.generators[0]
                tnames = [x.id for x in ast.walk(g.target) if isinstance(x, ast.Name)]
                ok = len(comp.generators) == 1 and not g.is_async and helper_calls(comp.elt) and isinstance(g.target, (ast.Name, ast.Tuple)) \
                    and not any(isinstance(x, (ast.ListComp, ast.SetComp, ast.DictComp, ast.GeneratorExp, ast.Lambda, ast.NamedExpr)) for x in ast.walk(comp) if x is not comp)
                if isinstance(s_, ast.Assign) and ok:
                    tn = s_.targets[0].id
                    ok = not any(isinstance(x, ast.Name) and x.id == tn for x in ast.walk(comp))
                if ok:
                    # the comprehension's variables are its own: keep them apart from the function's
                    outside = {x.id for x in ast.walk(fn) if isinstance(x, ast.Name) and not any(x is y for y in ast.walk(comp))} | {a.arg for a in fn.args.args + fn.args.kwonlyargs}
                    ren = {}
                    for n_ in tnames:
                        if n_ in outside:
                            counter[0] += 1
                            ren[n_] = f"{n_}__lc{counter[0]}"
                    sub = _Subst({}, ren)
                    elt = sub.visit(copy.deepcopy(comp.elt))
                    tgt = sub.visit(copy.deepcopy(g.target))
                    ifs = [sub.visit(copy.deepcopy(c_)) for c_ in g.ifs]
                    if isinstance(s_, ast.Assign):
                        acc = s_.targets[0].id
                    else:
                        counter[0] += 1
                        acc = f"lc{counter[0]}_"
                    init = ast.Assign(targets=[ast.Name(id=acc, ctx=ast.Store())], value=copy.deepcopy(prefix) if prefix is not None else ast.List(elts=[], ctx=ast.Load()))
                    app = ast.Expr(value=ast.Call(func=ast.Attribute(value=ast.Name(id=acc, ctx=ast.Load()), attr="append", ctx=ast.Load()), args=[elt], keywords=[]))
                    inner: List[ast.stmt] = [app]
                    if ifs:
                        inner = [ast.If(test=ifs[0] if len(ifs) == 1 else ast.BoolOp(op=ast.And(), values=ifs), body=inner, orelse=[])]
                    loop = ast.For(target=tgt, iter=copy.deepcopy(g.iter), body=inner, orelse=[])
                    for x in ast.walk(loop.target):
                        if hasattr(x, "ctx"):
                            x.ctx = ast.Store()
                    new: List[ast.stmt] = [init, loop]
                    if isinstance(s_, ast.Return):
                        new.append(ast.Return(value=ast.Name(id=acc, ctx=ast.Load())))
                    _relocate(new, s_)
                    for x in new:
                        ast.fix_missing_locations(x)
                    loop.body = [y for b_ in loop.body for y in (hoist(b_, fn_names) if not isinstance(b_, ast.If) else [b_])]
                    if ifs:
                        loop.body[0].body = [y for b_ in loop.body[0].body for y in hoist(b_, fn_names)]
                    out.extend(new)
                    done += 1
                    continue
            out.extend(hoist(s_, fn_names))
        return out

    for mod, t in trees.items():
        before = done
        for f in [x for x in ast.walk(t) if isinstance(x, ast.FunctionDef)]:
            fn_names = {x.id for x in ast.walk(f) if isinstance(x, ast.Name)}
            f.body = rewrite(f.body, f, fn_names)
        if done != before:
            touched.add(mod)
    for mod in touched:
        renumber(trees[mod])
    return done


# ---------------------------------------------------------------------------
# table-driven code:  for name, fn in TABLE: total += fn(data[name])   is read as the statements it stands for
# ---------------------------------------------------------------------------
def unroll_literal_loops(trees: Dict[str, ast.Module], max_rows: int = 32) -> int:
    """a `for` over a literal tuple / list - written in place, or a module-level name bound once to one and never changed -
    whose rows match the shape of the loop target, whose body neither breaks, continues nor rebinds the loop variables, and
    which has no else clause, is replaced by one copy of its body per row with the loop variables replaced by the row's
    elements.  A table-driven refactor (sections and their validators, fields and their setters) then shows the calls it
    makes.  Returns the number of loops unrolled."""
    done = 0
    touched = set()
    for mod, t in trees.items():
        consts = {}
        counts = {}
        for b in t.body:
            if isinstance(b, ast.Assign) and len(b.targets) == 1 and isinstance(b.targets[0], ast.Name):
                consts[b.targets[0].id] = b.value
        for x in ast.walk(t):
            if isinstance(x, ast.Name) and isinstance(x.ctx, (ast.Store, ast.Del)):
                counts[x.id] = counts.get(x.id, 0) + 1
        mutated = set()
        for x in ast.walk(t):
            if isinstance(x, ast.Call) and isinstance(x.func, ast.Attribute) and isinstance(x.func.value, ast.Name) and x.func.attr in ("append", "extend", "insert", "pop", "remove", "clear", "sort", "reverse"):
                mutated.add(x.func.value.id)
            if isinstance(x, ast.Subscript) and isinstance(x.ctx, (ast.Store, ast.Del)) and isinstance(x.value, ast.Name):
                mutated.add(x.value.id)
            if isinstance(x, ast.AugAssign) and isinstance(x.target, ast.Name):
                mutated.add(x.target.id)

        def table_of(it, local_tables=None):
            if isinstance(it, ast.Name) and local_tables and it.id in local_tables:
                until = (local_tables.get("__until__") or {}).get(it.id)
                if until is not None and getattr(it, "lineno", 0) >= until:
                    return None  # a name the table's rows mention has been re-assigned by now
                it = local_tables[it.id]
            elif isinstance(it, ast.Name) and it.id in consts and counts.get(it.id, 0) == 1 and it.id not in mutated:
                it = consts[it.id]
            if isinstance(it, (ast.Tuple, ast.List)) and 0 < len(it.elts) <= max_rows and not any(isinstance(e, ast.Starred) for e in it.elts):
                return it.elts
            return None

        def simple(e):
            return isinstance(e, (ast.Constant, ast.Name)) or (isinstance(e, ast.Attribute) and _chain(e))

        def rewrite(body, fn_locals):
            nonlocal done
            out = []
            for s in body:
                for fld in ("body", "orelse", "finalbody"):
                    b = getattr(s, fld, None)
                    if isinstance(b, list) and b and isinstance(b[0], ast.stmt) and not isinstance(s, (ast.FunctionDef, ast.ClassDef)):
                        setattr(s, fld, rewrite(b, fn_locals))
                for h in getattr(s, "handlers", []) or []:
                    h.body = rewrite(h.body, fn_locals)
                rows = table_of(s.iter, fn_locals.get("__tables__")) if isinstance(s, ast.For) and not s.orelse else None
                if rows is not None and isinstance(s.iter, ast.Name) and s.iter.id in fn_locals and s.iter.id not in (fn_locals.get("__tables__") or {}):
                    rows = None  # shadowed by a local
                if rows is None:
                    out.append(s)
                    continue
                tg = s.target
                names = [tg.id] if isinstance(tg, ast.Name) else ([e.id for e in tg.elts] if isinstance(tg, (ast.Tuple, ast.List)) and all(isinstance(e, ast.Name) for e in tg.elts) else None)
                ok = names is not None
                # first-match search:  for row in TABLE: if test(row): ...; break     is the if / elif chain over the rows
                first_match = None
                if ok and len(s.body) == 1 and isinstance(s.body[0], ast.If) and not s.body[0].orelse and s.body[0].body and isinstance(s.body[0].body[-1], ast.Break):
                    inner = s.body[0]
                    rest_ = ast.Module(body=inner.body[:-1], type_ignores=[])
                    if not any(isinstance(x, (ast.Break, ast.Continue, ast.FunctionDef, ast.Lambda)) or (isinstance(x, ast.Name) and x.id in names and isinstance(x.ctx, (ast.Store, ast.Del)))
                               for x in ast.walk(rest_)) and not any(isinstance(x, (ast.Lambda, ast.NamedExpr)) for x in ast.walk(inner.test)):
                        first_match = inner
                if first_match is not None:
                    rows_ok = all(simple(r) if isinstance(tg, ast.Name) else (isinstance(r, (ast.Tuple, ast.List)) and len(r.elts) == len(names) and all(simple(e) for e in r.elts)) for r in rows)
                    if rows_ok:
                        chain = None
                        for r in reversed(rows):
                            mp = {names[0]: r} if isinstance(tg, ast.Name) else dict(zip(names, r.elts))
                            sub = _Subst(mp, {})
                            node = ast.If(test=sub.visit(copy.deepcopy(first_match.test)), body=[sub.visit(copy.deepcopy(b_)) for b_ in first_match.body[:-1]] or [ast.Pass()],
                                          orelse=[chain] if chain is not None else [])
                            chain = node
                        new = [chain]
                        _relocate(new, s)
                        for x in new:
                            ast.fix_missing_locations(x)
                        out.extend(new)
                        done += 1
                        touched.add(mod)
                        continue
                if ok:
                    for x in ast.walk(ast.Module(body=s.body, type_ignores=[])):
                        if isinstance(x, (ast.Break, ast.Continue, ast.FunctionDef, ast.Lambda)) or (isinstance(x, ast.Name) and x.id in names and isinstance(x.ctx, (ast.Store, ast.Del))):
                            ok = False
                            break
                def row_elt(e):
                    """what a row may hold: a plain value, a range over plain arithmetic, or a lambda (a stage of a table of stages)"""
                    if simple(e):
                        return True
                    if isinstance(e, ast.Lambda):
                        a_ = e.args
                        return not (a_.defaults or a_.kw_defaults or a_.vararg or a_.kwarg or a_.kwonlyargs or a_.posonlyargs) and not any(isinstance(x, (ast.Lambda, ast.NamedExpr, ast.Yield)) for x in ast.walk(e.body))
                    if isinstance(e, ast.Call) and isinstance(e.func, ast.Name) and e.func.id == "range" and not e.keywords:
                        return all(isinstance(x, (ast.Name, ast.Constant, ast.BinOp, ast.UnaryOp, ast.operator, ast.unaryop, ast.expr_context)) for a_ in e.args for x in ast.walk(a_))
                    return False

                if ok:
                    for r in rows:
                        if isinstance(tg, ast.Name):
                            ok = ok and simple(r)
                        else:
                            ok = ok and isinstance(r, (ast.Tuple, ast.List)) and len(r.elts) == len(names) and all(row_elt(e) for e in r.elts)
                if not ok:
                    out.append(s)
                    continue
                new = []
                for r in rows:
                    mp = {names[0]: r} if isinstance(tg, ast.Name) else dict(zip(names, r.elts))
                    sub = _Subst(mp, {})
                    new.extend(_beta(sub.visit(copy.deepcopy(b_))) for b_ in s.body)
                _relocate(new, s)
                for x in new:
                    ast.fix_missing_locations(x)
                out.extend(new)
                done += 1
                touched.add(mod)
            return out

        def comprehensions(fn, fn_locals):
            """[E(v) for v in TABLE] with a literal table is the list of its rows' elements; a tuple assignment from such a list
            (a, b, c = [E(r1), E(r2), E(r3)]) is the three assignments, as long as no value reads one of the targets"""
            nonlocal done

            class C(ast.NodeTransformer):
                def visit_FunctionDef(self, n):
                    return n if n is not fn else self.generic_visit(n)

                def visit_Lambda(self, n):
                    return n

                def visit_ListComp(self, n):
                    nonlocal done
                    self.generic_visit(n)
                    if len(n.generators) != 1 or n.generators[0].ifs or n.generators[0].is_async:
                        return n
                    g = n.generators[0]
                    rows = table_of(g.iter, fn_locals.get("__tables__"))
                    if rows is not None and isinstance(g.iter, ast.Name) and g.iter.id in fn_locals and g.iter.id not in (fn_locals.get("__tables__") or {}):
                        rows = None
                    if rows is None:
                        return n
                    tg = g.target
                    names = [tg.id] if isinstance(tg, ast.Name) else ([e.id for e in tg.elts] if isinstance(tg, (ast.Tuple, ast.List)) and all(isinstance(e, ast.Name) for e in tg.elts) else None)
                    if names is None or any(isinstance(y, (ast.Lambda, ast.ListComp, ast.SetComp, ast.DictComp, ast.GeneratorExp, ast.NamedExpr)) for y in ast.walk(n.elt)):
                        return n
                    if not any(isinstance(y, ast.Call) for y in ast.walk(n.elt)):
                        return n  # a plain arithmetic map over a table (hours = [24 * d for d in days]) is left as the expression it is
                    for r in rows:
                        if isinstance(tg, ast.Name):
                            if not simple(r):
                                return n
                        elif not (isinstance(r, (ast.Tuple, ast.List)) and len(r.elts) == len(names) and all(simple(e) for e in r.elts)):
                            return n
                    elts = []
                    for r in rows:
                        mp = {names[0]: r} if isinstance(tg, ast.Name) else dict(zip(names, r.elts))
                        elts.append(_Subst(mp, {}).visit(copy.deepcopy(n.elt)))
                    done += 1
                    touched.add(mod)
                    return ast.copy_location(ast.List(elts=elts, ctx=ast.Load()), n)

            # a generator expression that is unpacked on the spot is consumed completely and in order: the list comprehension
            for a_ in ast.walk(fn):
                if isinstance(a_, ast.Assign) and len(a_.targets) == 1 and isinstance(a_.targets[0], (ast.Tuple, ast.List)) and isinstance(a_.value, ast.GeneratorExp):
                    a_.value = ast.copy_location(ast.ListComp(elt=a_.value.elt, generators=a_.value.generators), a_.value)
            C().visit(fn)

            def split(body):
                out = []
                for s_ in body:
                    for fld in ("body", "orelse", "finalbody"):
                        b = getattr(s_, fld, None)
                        if isinstance(b, list) and b and isinstance(b[0], ast.stmt) and not isinstance(s_, (ast.FunctionDef, ast.ClassDef)):
                            setattr(s_, fld, split(b))
                    for h in getattr(s_, "handlers", []) or []:
                        h.body = split(h.body)
                    if isinstance(s_, ast.Assign) and len(s_.targets) == 1 and isinstance(s_.targets[0], (ast.Tuple, ast.List)) and isinstance(s_.value, ast.List) \
                            and getattr(s_.value, "_from_table", False) is False and len(s_.targets[0].elts) == len(s_.value.elts) \
                            and all(isinstance(e, ast.Name) for e in s_.targets[0].elts) and any(isinstance(y, ast.Call) for y in ast.walk(s_.value)):
                        tn = {e.id for e in s_.targets[0].elts}
                        if not any(isinstance(y, ast.Name) and y.id in tn for y in ast.walk(s_.value)) and len(tn) == len(s_.targets[0].elts):
                            new = [ast.Assign(targets=[e], value=v) for e, v in zip(s_.targets[0].elts, s_.value.elts)]
                            _relocate(new, s_)
                            for y in new:
                                ast.fix_missing_locations(y)
                            out.extend(new)
                            touched.add(mod)
                            continue
                    out.append(s_)
                return out

            return split(fn.body)

        for x in ast.walk(t):
            if isinstance(x, ast.FunctionDef):
                loc = {y.id: True for y in ast.walk(x) if isinstance(y, ast.Name) and isinstance(y.ctx, ast.Store)}
                loc.update({a.arg: True for a in x.args.args + x.args.kwonlyargs})
                # a local bound ONCE, at the top level of the function, to a literal tuple / list, never changed afterwards, and
                # whose row elements are not re-assigned between the table and the loop: a table in the same sense
                stores = {}
                for y in ast.walk(x):
                    if isinstance(y, ast.Name) and isinstance(y.ctx, (ast.Store, ast.Del)):
                        stores[y.id] = stores.get(y.id, 0) + 1
                tabs = {}
                for b_ in x.body:
                    if isinstance(b_, ast.Assign) and len(b_.targets) == 1 and isinstance(b_.targets[0], ast.Name) and isinstance(b_.value, (ast.Tuple, ast.List)) \
                            and stores.get(b_.targets[0].id, 0) == 1 and b_.targets[0].id not in mutated:
                        used = {z.id for z in ast.walk(b_.value) if isinstance(z, ast.Name)}
                        later_stores = {z.id for c_ in x.body[x.body.index(b_) + 1:] for z in ast.walk(c_) if isinstance(z, ast.Name) and isinstance(z.ctx, (ast.Store, ast.Del))}
                        later_attr = {_chain_text(z) for c_ in x.body[x.body.index(b_) + 1:] for z in ast.walk(c_) if isinstance(z, ast.Attribute) and isinstance(z.ctx, (ast.Store, ast.Del))}
                        used_attr = {_chain_text(z) for z in ast.walk(b_.value) if isinstance(z, ast.Attribute)}
                        if not (used & later_stores) and not (used_attr & later_attr):
                            tabs[b_.targets[0].id] = b_.value
                        elif not any(isinstance(p_, (ast.For, ast.While)) and any(b_ is y for y in ast.walk(p_)) for p_ in x.body):
                            # valid up to the first later statement of the function body that re-assigns something the rows mention
                            for c_ in x.body[x.body.index(b_) + 1:]:
                                st_n = {z.id for z in ast.walk(c_) if isinstance(z, ast.Name) and isinstance(z.ctx, (ast.Store, ast.Del))}
                                st_a = {_chain_text(z) for z in ast.walk(c_) if isinstance(z, ast.Attribute) and isinstance(z.ctx, (ast.Store, ast.Del))}
                                if (used & st_n) or (used_attr & st_a):
                                    tabs[b_.targets[0].id] = b_.value
                                    tabs.setdefault("__until__", {})[b_.targets[0].id] = c_.lineno
                                    break
                # the same for a table bound inside a branch: nothing it names may be re-assigned anywhere in the function
                all_stores = {z.id for z in ast.walk(x) if isinstance(z, ast.Name) and isinstance(z.ctx, (ast.Store, ast.Del))}
                all_attr = {_chain_text(z) for z in ast.walk(x) if isinstance(z, ast.Attribute) and isinstance(z.ctx, (ast.Store, ast.Del))}
                for b_ in ast.walk(x):
                    if b_ in x.body or not (isinstance(b_, ast.Assign) and len(b_.targets) == 1 and isinstance(b_.targets[0], ast.Name) and isinstance(b_.value, (ast.Tuple, ast.List))):
                        continue
                    nm = b_.targets[0].id
                    if stores.get(nm, 0) != 1 or nm in mutated or nm in tabs or nm == "__until__":
                        continue
                    lam_params = {a_.arg for z in ast.walk(b_.value) if isinstance(z, ast.Lambda) for a_ in z.args.args}
                    used = {z.id for z in ast.walk(b_.value) if isinstance(z, ast.Name)} - lam_params
                    used_attr = {_chain_text(z) for z in ast.walk(b_.value) if isinstance(z, ast.Attribute)}
                    if not (used & all_stores) and not (used_attr & all_attr):
                        tabs[nm] = b_.value
                    elif not (used_attr & all_attr) and not any(isinstance(p_, (ast.For, ast.While)) and any(b_ is y for y in ast.walk(p_)) for p_ in ast.walk(x)) \
                            and all(getattr(z, "lineno", 10 ** 9) < b_.lineno for z in ast.walk(x) if isinstance(z, ast.Name) and isinstance(z.ctx, (ast.Store, ast.Del)) and z.id in used):
                        tabs[nm] = b_.value  # what the rows name is settled before the table is written (and the table is not in a loop)
                loc["__tables__"] = tabs
                before_ = done
                x.body = rewrite(x.body, loc)
                x.body = comprehensions(x, loc)
                if done != before_:
                    # a local table whose every use was unrolled is dead; writing it has no effect (its rows are names, constants,
                    # ranges and lambdas), and its lambdas would otherwise be read as code that still runs
                    loads_ = {y.id for y in ast.walk(x) if isinstance(y, ast.Name) and isinstance(y.ctx, ast.Load)}
                    dead_ = {id(b_) for b_ in ast.walk(x) if isinstance(b_, ast.Assign) and len(b_.targets) == 1 and isinstance(b_.targets[0], ast.Name)
                             and b_.targets[0].id in tabs and tabs[b_.targets[0].id] is b_.value and b_.targets[0].id not in loads_
                             and not any(isinstance(z, ast.Call) and not (isinstance(z.func, ast.Name) and z.func.id == "range") for z in ast.walk(b_.value) if not isinstance(z, ast.Lambda)
                                         and not any(z is w for lam in ast.walk(b_.value) if isinstance(lam, ast.Lambda) for w in ast.walk(lam.body)))}
                    if dead_:
                        _drop_stmts(x, dead_)
    for mod in touched:
        renumber(trees[mod])
    return done


# ---------------------------------------------------------------------------
# setters = {A: obj.set_a, B: obj.set_b}; if k in setters: f = setters[k]; f(x)      is read as the if / elif chain on k
# ---------------------------------------------------------------------------
def expand_dispatch_tables(trees: Dict[str, ast.Module]) -> int:
    """a local bound once to a dict literal whose keys are names / attribute chains / constants and whose values are names or
    attribute chains (functions, bound methods, classes), never mutated or passed on:
      - `k in TABLE` / `k not in TABLE`        becomes the membership test in the tuple of its keys,
      - `f = TABLE[k]` immediately followed by the one statement that uses f, as the callee of `f(...)`, and
        a statement whose value is `TABLE[k](...)`
                                                becomes  if k == K1: <statement with V1> elif k == K2: ... else: raise KeyError(k)
    (k itself must be a name or an attribute chain).  Returns the number of rewrites."""
    done = 0
    touched = set()

    def simple(e):
        return isinstance(e, (ast.Constant, ast.Name)) or (isinstance(e, ast.Attribute) and _chain(e))

    def do_function(fn: ast.FunctionDef, mod: str):
        nonlocal done
        stores: Dict[str, int] = {}
        for x in ast.walk(fn):
            if isinstance(x, ast.Name) and isinstance(x.ctx, (ast.Store, ast.Del)):
                stores[x.id] = stores.get(x.id, 0) + 1
        tables: Dict[str, ast.Dict] = {}
        for x in ast.walk(fn):
            if isinstance(x, ast.Assign) and len(x.targets) == 1 and isinstance(x.targets[0], ast.Name) and isinstance(x.value, ast.Dict) and stores.get(x.targets[0].id) == 1 \
                    and x.value.keys and all(k is not None and simple(k) for k in x.value.keys) and all(isinstance(v, (ast.Name, ast.Attribute)) and simple(v) for v in x.value.values):
                tables[x.targets[0].id] = x.value
        if not tables:
            return
        # every use of the table must be one of the three forms
        uses = {n: [] for n in tables}
        parents = {}
        for x in ast.walk(fn):
            for c in ast.iter_child_nodes(x):
                parents[id(c)] = x
        for x in ast.walk(fn):
            if isinstance(x, ast.Name) and x.id in tables and isinstance(x.ctx, ast.Load):
                uses[x.id].append(x)
        for name in list(tables):
            for u in uses[name]:
                par = parents.get(id(u))
                ok = (isinstance(par, ast.Compare) and len(par.ops) == 1 and isinstance(par.ops[0], (ast.In, ast.NotIn)) and par.comparators[0] is u and simple(par.left)) \
                    or (isinstance(par, ast.Subscript) and par.value is u and isinstance(par.ctx, ast.Load) and simple(par.slice) and not isinstance(par.slice, ast.Constant))
                if not ok:
                    tables.pop(name, None)
                    break
        if not tables:
            return

        def chain_stmt(key_expr, table: ast.Dict, make_stmt, at, guarded=False):
            # under `if k in TABLE:` one of the keys matches; elsewhere a missing key raises
            chain = None if guarded else ast.Raise(exc=ast.Call(func=ast.Name(id="KeyError", ctx=ast.Load()), args=[copy.deepcopy(key_expr)], keywords=[]), cause=None)
            for k, v in reversed(list(zip(table.keys, table.values))):
                chain = ast.If(test=ast.Compare(left=copy.deepcopy(key_expr), ops=[ast.Eq()], comparators=[copy.deepcopy(k)]), body=[make_stmt(copy.deepcopy(v))], orelse=[chain] if chain is not None else [])
            _relocate([chain], at)
            ast.fix_missing_locations(chain)
            return chain

        def rewrite(body, guards=frozenset()):
            nonlocal done
            out = []
            i = 0
            while i < len(body):
                s_ = body[i]
                for fld in ("body", "orelse", "finalbody"):
                    b = getattr(s_, fld, None)
                    if isinstance(b, list) and b and isinstance(b[0], ast.stmt) and not isinstance(s_, (ast.FunctionDef, ast.ClassDef)):
                        g2 = guards
                        t_ = s_.test if isinstance(s_, ast.If) else None
                        if isinstance(t_, ast.Compare) and len(t_.ops) == 1 and isinstance(t_.comparators[0], ast.Name) and t_.comparators[0].id in tables \
                                and ((isinstance(t_.ops[0], ast.In) and fld == "body") or (isinstance(t_.ops[0], ast.NotIn) and fld == "orelse")):
                            g2 = guards | {(t_.comparators[0].id, ast.unparse(t_.left))}
                        elif isinstance(s_, (ast.For, ast.While)):
                            g2 = frozenset()
                        setattr(s_, fld, rewrite(b, g2))
                for h in getattr(s_, "handlers", []) or []:
                    h.body = rewrite(h.body)
                # a statement that may change the key ends the guard's knowledge
                if guards and any(isinstance(x, ast.Call) or (isinstance(x, (ast.Name, ast.Attribute)) and isinstance(x.ctx, (ast.Store, ast.Del))) for x in ast.walk(s_)) \
                        and not (isinstance(s_, ast.Assign) and isinstance(s_.value, ast.Subscript) and isinstance(s_.value.value, ast.Name) and s_.value.value.id in tables):
                    after_guards = frozenset()
                else:
                    after_guards = guards
                # f = TABLE[k] ; <one statement calling f>
                if isinstance(s_, ast.Assign) and len(s_.targets) == 1 and isinstance(s_.targets[0], ast.Name) and isinstance(s_.value, ast.Subscript) \
                        and isinstance(s_.value.value, ast.Name) and s_.value.value.id in tables and stores.get(s_.targets[0].id) == 1 and i + 1 < len(body):
                    f_ = s_.targets[0].id
                    nxt = body[i + 1]
                    all_f = [x for x in ast.walk(fn) if isinstance(x, ast.Name) and x.id == f_ and isinstance(x.ctx, ast.Load)]
                    in_next = [x for x in ast.walk(nxt) if isinstance(x, ast.Name) and x.id == f_ and isinstance(x.ctx, ast.Load)]
                    callee_uses = [c for c in ast.walk(nxt) if isinstance(c, ast.Call) and isinstance(c.func, ast.Name) and c.func.id == f_]
                    if isinstance(nxt, (ast.Expr, ast.Assign, ast.Return, ast.AugAssign)) and len(all_f) == len(in_next) == len(callee_uses) == 1:
                        key_expr, table = s_.value.slice, tables[s_.value.value.id]

                        def make(v, nxt=nxt, f_=f_):
                            st2 = copy.deepcopy(nxt)
                            for c in ast.walk(st2):
                                if isinstance(c, ast.Call) and isinstance(c.func, ast.Name) and c.func.id == f_:
                                    c.func = v
                            return st2

                        out.append(chain_stmt(key_expr, table, make, nxt, (s_.value.value.id, ast.unparse(key_expr)) in guards))
                        done += 1
                        touched.add(mod)
                        i += 2
                        guards = frozenset()
                        continue
                # TABLE[k](...) as the value of a simple statement
                if isinstance(s_, (ast.Expr, ast.Assign, ast.Return, ast.AugAssign)) and isinstance(getattr(s_, "value", None), ast.Call) and isinstance(s_.value.func, ast.Subscript) \
                        and isinstance(s_.value.func.value, ast.Name) and s_.value.func.value.id in tables:
                    key_expr, table = s_.value.func.slice, tables[s_.value.func.value.id]

                    def make2(v, s_=s_):
                        st2 = copy.deepcopy(s_)
                        st2.value.func = v
                        return st2

                    out.append(chain_stmt(key_expr, table, make2, s_, (s_.value.func.value.id, ast.unparse(key_expr)) in guards))
                    done += 1
                    touched.add(mod)
                    i += 1
                    guards = frozenset()
                    continue
                out.append(s_)
                guards = after_guards
                i += 1
            return out

        fn.body = rewrite(fn.body)

        class M(ast.NodeTransformer):
            def visit_Compare(self, n):
                nonlocal done
                self.generic_visit(n)
                if len(n.ops) == 1 and isinstance(n.ops[0], (ast.In, ast.NotIn)) and isinstance(n.comparators[0], ast.Name) and n.comparators[0].id in tables:
                    n.comparators[0] = ast.copy_location(ast.Tuple(elts=[copy.deepcopy(k) for k in tables[n.comparators[0].id].keys], ctx=ast.Load()), n.comparators[0])
                    ast.fix_missing_locations(n)
                    done += 1
                    touched.add(mod)
                return n

        M().visit(fn)

    for mod, t in trees.items():
        for x in ast.walk(t):
            if isinstance(x, ast.FunctionDef):
                do_function(x, mod)
    for mod in touched:
        renumber(trees[mod])
    return done


# ---------------------------------------------------------------------------
# x = TABLE.get(k)  /  x = TABLE[k]   with a literal table   is read as the if / elif chain on k
# ---------------------------------------------------------------------------
def expand_value_lookups(trees: Dict[str, ast.Module], max_rows: int = 12) -> int:
    """`name = TABLE[k]`, `name = TABLE.get(k)` and `name = TABLE.get(k, default)` as a whole statement, with TABLE a dict display
    of at most `max_rows` entries whose keys and values are names / attribute chains / constants - bound once in the function, or
    once at module level and nowhere stored into or mutated - and k a name or attribute chain, become
        if k == K1: name = V1  elif k == K2: name = V2 ...  else: name = default   (else: raise KeyError(k) for TABLE[k]).
    Returns the number of statements rewritten."""
    done = 0
    touched = set()

    def simple(e):
        return isinstance(e, (ast.Constant, ast.Name)) or (isinstance(e, ast.Attribute) and _chain(e))

    def is_table(v):
        # tables that choose CODE or enum members (classes, functions, bound methods, members); tables of plain data (file names,
        # numbers) stay tables - the rules read those as they are
        return isinstance(v, ast.Dict) and 0 < len(v.keys) <= max_rows and all(k is not None and simple(k) for k in v.keys) \
            and all(isinstance(x, (ast.Name, ast.Attribute)) and simple(x) for x in v.values)

    MUT = ("update", "pop", "popitem", "clear", "setdefault", "__setitem__")
    for mod, t in trees.items():
        counts: Dict[str, int] = {}
        for x in ast.walk(t):
            if isinstance(x, ast.Name) and isinstance(x.ctx, (ast.Store, ast.Del)):
                counts[x.id] = counts.get(x.id, 0) + 1
        mutated = set()
        for x in ast.walk(t):
            if isinstance(x, ast.Subscript) and isinstance(x.ctx, (ast.Store, ast.Del)) and isinstance(x.value, ast.Name):
                mutated.add(x.value.id)
            if isinstance(x, ast.Call) and isinstance(x.func, ast.Attribute) and x.func.attr in MUT and isinstance(x.func.value, ast.Name):
                mutated.add(x.func.value.id)
        mod_tables = {b.targets[0].id: b.value for b in t.body if isinstance(b, ast.Assign) and len(b.targets) == 1 and isinstance(b.targets[0], ast.Name)
                      and is_table(b.value) and counts.get(b.targets[0].id) == 1 and b.targets[0].id not in mutated}
        for fn in [x for x in ast.walk(t) if isinstance(x, ast.FunctionDef)]:
            fstores: Dict[str, int] = {}
            for x in ast.walk(fn):
                if isinstance(x, ast.Name) and isinstance(x.ctx, (ast.Store, ast.Del)):
                    fstores[x.id] = fstores.get(x.id, 0) + 1
            tables = {k: v for k, v in mod_tables.items() if k not in fstores and k not in [a.arg for a in fn.args.args + fn.args.kwonlyargs]}
            local_line = {}
            for x in ast.walk(fn):
                if isinstance(x, ast.Assign) and len(x.targets) == 1 and isinstance(x.targets[0], ast.Name) and is_table(x.value) and fstores.get(x.targets[0].id) == 1 and x.targets[0].id not in mutated:
                    tables[x.targets[0].id] = x.value
                    local_line[x.targets[0].id] = x.lineno
            if not tables:
                continue

            def membership(test, tname):
                """(key text, positive?) if test is `k in TABLE` / `k not in TABLE` (TABLE by name or spelled out as the tuple of its keys)"""
                if isinstance(test, ast.Compare) and len(test.ops) == 1 and isinstance(test.ops[0], (ast.In, ast.NotIn)):
                    c = test.comparators[0]
                    keys_txt = [ast.unparse(k) for k in tables[tname].keys]
                    if (isinstance(c, ast.Name) and c.id == tname) or (isinstance(c, (ast.Tuple, ast.List, ast.Set)) and [ast.unparse(e) for e in c.elts] == keys_txt):
                        return ast.unparse(test.left), isinstance(test.ops[0], ast.In)
                return None

            def rewrite(body, guards=frozenset()):
                nonlocal done
                out = []
                guards = set(guards)
                for s_ in body:
                    for fld in ("body", "orelse", "finalbody"):
                        b = getattr(s_, fld, None)
                        if isinstance(b, list) and b and isinstance(b[0], ast.stmt) and not isinstance(s_, (ast.FunctionDef, ast.ClassDef)):
                            g2 = set(guards) if not isinstance(s_, (ast.For, ast.While)) else set()
                            if isinstance(s_, ast.If):
                                for tn in tables:
                                    m_ = membership(s_.test, tn)
                                    if m_ is not None and ((m_[1] and fld == "body") or (not m_[1] and fld == "orelse")):
                                        g2.add((tn, m_[0]))
                            setattr(s_, fld, rewrite(b, frozenset(g2)))
                    for h in getattr(s_, "handlers", []) or []:
                        h.body = rewrite(h.body)
                    # if k not in TABLE: <leave>   guards what follows in this block
                    if isinstance(s_, ast.If) and not s_.orelse and s_.body and isinstance(s_.body[-1], (ast.Return, ast.Raise, ast.Continue, ast.Break)):
                        for tn in tables:
                            m_ = membership(s_.test, tn)
                            if m_ is not None and not m_[1]:
                                guards.add((tn, m_[0]))
                    hit = None
                    if isinstance(s_, ast.Assign) and len(s_.targets) == 1 and isinstance(s_.targets[0], ast.Name):
                        v = s_.value
                        if isinstance(v, ast.Subscript) and isinstance(v.value, ast.Name) and v.value.id in tables and simple(v.slice) and not isinstance(v.slice, ast.Constant) \
                                and (v.value.id, ast.unparse(v.slice)) in guards:
                            hit = (v.value.id, v.slice, "guarded")
                        elif isinstance(v, ast.Call) and isinstance(v.func, ast.Attribute) and v.func.attr == "get" and isinstance(v.func.value, ast.Name) and v.func.value.id in tables \
                                and len(v.args) in (1, 2) and not v.keywords and simple(v.args[0]) and not isinstance(v.args[0], ast.Constant) and (len(v.args) == 1 or simple(v.args[1])):
                            hit = (v.func.value.id, v.args[0], v.args[1] if len(v.args) == 2 else ast.Constant(value=None))
                    if hit is not None and local_line.get(hit[0], 0) < s_.lineno and s_.targets[0].id not in {x.id for x in ast.walk(hit[1]) if isinstance(x, ast.Name)}:
                        tname, key, dflt = hit
                        tab = tables[tname]
                        # TABLE[k] is expanded only where a membership test has established that one of the keys matches: no else
                        chain = None if dflt == "guarded" else ast.Assign(targets=[copy.deepcopy(s_.targets[0])], value=copy.deepcopy(dflt))
                        for k_, v_ in reversed(list(zip(tab.keys, tab.values))):
                            chain = ast.If(test=ast.Compare(left=copy.deepcopy(key), ops=[ast.Eq()], comparators=[copy.deepcopy(k_)]),
                                           body=[ast.Assign(targets=[copy.deepcopy(s_.targets[0])], value=copy.deepcopy(v_))], orelse=[chain] if chain is not None else [])
                        _relocate([chain], s_)
                        ast.fix_missing_locations(chain)
                        out.append(chain)
                        done += 1
                        touched.add(mod)
                        continue
                    stored_here = {x.id for x in ast.walk(s_) if isinstance(x, ast.Name) and isinstance(x.ctx, (ast.Store, ast.Del))}
                    guards = {g_ for g_ in guards if not (set(g_[1].replace("[", ".").replace("]", "").split(".")) & stored_here)}
                    out.append(s_)
                return out

            fn.body = rewrite(fn.body)
    for mod in touched:
        renumber(trees[mod])
    return done


# ---------------------------------------------------------------------------
# for i, v in enumerate(X[a:], start=a): B      is read as      for i in range(a, len(X)): v = X[i]; B
# ---------------------------------------------------------------------------
def index_tail_enumerations(trees: Dict[str, ast.Module]) -> int:
    """an enumeration of the tail of a sequence that starts counting at the tail's own offset (a a non-negative integer constant,
    X a plain name that the loop does not re-bind, v a plain name the body does not re-bind): the index is the position in X."""
    done = 0
    for t in trees.values():
        for lp in [x for x in ast.walk(t) if isinstance(x, ast.For)]:
            it = lp.iter
            if not (isinstance(it, ast.Call) and isinstance(it.func, ast.Name) and it.func.id == "enumerate" and len(it.args) in (1, 2) and not lp.orelse
                    and isinstance(lp.target, ast.Tuple) and len(lp.target.elts) == 2 and all(isinstance(e, ast.Name) for e in lp.target.elts)):
                continue
            sl = it.args[0]
            start = it.args[1] if len(it.args) == 2 else next((k.value for k in it.keywords if k.arg == "start"), None)
            if any(k.arg != "start" for k in it.keywords) or (len(it.args) == 2 and it.keywords):
                continue
            if not (isinstance(sl, ast.Subscript) and isinstance(sl.value, ast.Name) and isinstance(sl.slice, ast.Slice) and sl.slice.upper is None and sl.slice.step is None
                    and isinstance(sl.slice.lower, ast.Constant) and isinstance(sl.slice.lower.value, int) and not isinstance(sl.slice.lower.value, bool) and sl.slice.lower.value >= 0
                    and isinstance(start, ast.Constant) and start.value == sl.slice.lower.value):
                continue
            i, v, X = lp.target.elts[0].id, lp.target.elts[1].id, sl.value.id
            rebound = {x.id for b in lp.body for x in ast.walk(b) if isinstance(x, ast.Name) and isinstance(x.ctx, (ast.Store, ast.Del))}
            if {i, v, X} & rebound or len({i, v, X}) != 3:
                continue
            lp.target = ast.Name(id=i, ctx=ast.Store())
            lp.iter = ast.Call(func=ast.Name(id="range", ctx=ast.Load()), args=[ast.Constant(value=start.value), ast.Call(func=ast.Name(id="len", ctx=ast.Load()), args=[ast.Name(id=X, ctx=ast.Load())], keywords=[])], keywords=[])
            bind = ast.Assign(targets=[ast.Name(id=v, ctx=ast.Store())], value=ast.Subscript(value=ast.Name(id=X, ctx=ast.Load()), slice=ast.Name(id=i, ctx=ast.Load()), ctx=ast.Load()))
            lp.body.insert(0, bind)
            for x in (lp, bind):
                ast.copy_location(x, lp)
            ast.fix_missing_locations(lp)
            done += 1
    return done


# ---------------------------------------------------------------------------
# opts = {'a': x, 'b': y}; opts['c'] = z; f(p, **opts)      is read as      f(p, a=x, b=y, c=z)
# ---------------------------------------------------------------------------
def fold_keyword_dicts(trees: Dict[str, ast.Module]) -> int:
    """(a) `if True: B` / `if False: .. else: B` left behind by expanding a helper at a constant argument is B;
    (b) a local bound to a dict display with identifier keys, extended right away by  d['k'] = v  statements, is the larger display;
    (c) such a local, bound once, read once - as `**d` in a call of the statement that follows the binding (nothing but `pass` and
        plain copies of other names in between) - and whose values are names, attribute chains and constants, is the keywords it spells; the binding goes.
    Returns the number of rewrites."""
    done = 0

    def simple(e):
        return isinstance(e, (ast.Name, ast.Constant)) or (isinstance(e, ast.Attribute) and _chain(e))

    def ident_dict(v):
        return isinstance(v, ast.Dict) and all(isinstance(k, ast.Constant) and isinstance(k.value, str) and k.value.isidentifier() for k in v.keys)

    def block(body, fn):
        nonlocal done
        out: List[ast.stmt] = []
        flat: List[ast.stmt] = []
        for s_ in body:
            for fld in ("body", "orelse", "finalbody"):
                b = getattr(s_, fld, None)
                if isinstance(b, list) and b and isinstance(b[0], ast.stmt) and not isinstance(s_, (ast.FunctionDef, ast.ClassDef)):
                    setattr(s_, fld, block(b, fn))
            for h in getattr(s_, "handlers", []) or []:
                h.body = block(h.body, fn)
            if isinstance(s_, ast.If) and isinstance(s_.test, ast.Constant) and isinstance(s_.test.value, bool):
                flat.extend(s_.body if s_.test.value else s_.orelse)
                done += 1
                continue
            # a, b = (x, y)  with plain values that none of the targets occurs in: one assignment each
            if (isinstance(s_, ast.Assign) and len(s_.targets) == 1 and isinstance(s_.targets[0], ast.Tuple) and isinstance(s_.value, ast.Tuple)
                    and len(s_.targets[0].elts) == len(s_.value.elts) and all(isinstance(e, ast.Name) for e in s_.targets[0].elts)
                    and len({e.id for e in s_.targets[0].elts}) == len(s_.targets[0].elts) and all(simple(v) for v in s_.value.elts)
                    and not ({e.id for e in s_.targets[0].elts} & {x.id for v in s_.value.elts for x in ast.walk(v) if isinstance(x, ast.Name)})):
                for e, v in zip(s_.targets[0].elts, s_.value.elts):
                    a_ = ast.Assign(targets=[ast.Name(id=e.id, ctx=ast.Store())], value=v)
                    ast.copy_location(a_, s_)
                    ast.fix_missing_locations(a_)
                    flat.append(a_)
                done += 1
                continue
            flat.append(s_)
        for s_ in flat:
            prev = out[-1] if out else None
            if (isinstance(s_, ast.Assign) and len(s_.targets) == 1 and isinstance(s_.targets[0], ast.Subscript) and isinstance(s_.targets[0].value, ast.Name)
                    and isinstance(s_.targets[0].slice, ast.Constant) and isinstance(s_.targets[0].slice.value, str) and s_.targets[0].slice.value.isidentifier()
                    and isinstance(prev, ast.Assign) and len(prev.targets) == 1 and isinstance(prev.targets[0], ast.Name) and prev.targets[0].id == s_.targets[0].value.id
                    and ident_dict(prev.value) and s_.targets[0].slice.value not in {k.value for k in prev.value.keys}
                    and not any(isinstance(x, ast.Name) and x.id == prev.targets[0].id for x in ast.walk(s_.value))):
                prev.value.keys.append(ast.Constant(value=s_.targets[0].slice.value))
                prev.value.values.append(s_.value)
                ast.fix_missing_locations(prev)
                done += 1
                continue
            out.append(s_)
        return out or [ast.Pass()]

    def block_c(body, fn):
        nonlocal done
        out = []
        for s_ in body:
            for fld in ("body", "orelse", "finalbody"):
                b = getattr(s_, fld, None)
                if isinstance(b, list) and b and isinstance(b[0], ast.stmt) and not isinstance(s_, (ast.FunctionDef, ast.ClassDef)):
                    setattr(s_, fld, block_c(b, fn))
            for h in getattr(s_, "handlers", []) or []:
                h.body = block_c(h.body, fn)
            out.append(s_)
        i = 0
        while i < len(out):
            s_ = out[i]
            if isinstance(s_, ast.Assign) and len(s_.targets) == 1 and isinstance(s_.targets[0], ast.Name) and ident_dict(s_.value) and s_.value.keys and all(simple(v) for v in s_.value.values):
                d = s_.targets[0].id
                stores = sum(1 for x in ast.walk(fn) if isinstance(x, ast.Name) and x.id == d and isinstance(x.ctx, ast.Store))
                loads = [x for x in ast.walk(fn) if isinstance(x, ast.Name) and x.id == d and isinstance(x.ctx, ast.Load)]
                j = i + 1
                read = {x.id for v in s_.value.values for x in ast.walk(v) if isinstance(x, ast.Name)}
                while j < len(out) and (isinstance(out[j], ast.Pass) or (
                        isinstance(out[j], ast.Assign) and len(out[j].targets) == 1 and isinstance(out[j].targets[0], ast.Name) and simple(out[j].value)
                        and out[j].targets[0].id not in read | {d} and not any(isinstance(x, ast.Name) and x.id == d for x in ast.walk(out[j].value)))):
                    j += 1  # plain copies of names / attributes in between do not care when the display is evaluated
                if stores == 1 and len(loads) == 1 and j < len(out) and isinstance(out[j], (ast.Assign, ast.Expr, ast.Return, ast.AugAssign)):
                    for c in ast.walk(out[j]):
                        if isinstance(c, ast.Call) and any(k.arg is None and k.value is loads[0] for k in c.keywords):
                            given = {k.arg for k in c.keywords if k.arg}
                            if given & {k.value for k in s_.value.keys}:
                                break
                            idx = next(n for n, k in enumerate(c.keywords) if k.arg is None and k.value is loads[0])
                            c.keywords[idx:idx + 1] = [ast.keyword(arg=k.value, value=v) for k, v in zip(s_.value.keys, s_.value.values)]
                            ast.fix_missing_locations(c)
                            del out[i]
                            done += 1
                            i -= 1
                            break
            i += 1
        return out or [ast.Pass()]

    def last_binds(s_, rv):
        """the `rv = E` statements that end every way through s_ (an assignment, or an if whose branches all end in one), else None"""
        if isinstance(s_, ast.Assign) and len(s_.targets) == 1 and isinstance(s_.targets[0], ast.Name) and s_.targets[0].id == rv:
            return [s_]
        if isinstance(s_, ast.If) and s_.body and s_.orelse:
            a, b = last_binds(s_.body[-1], rv), last_binds(s_.orelse[-1], rv)
            return a + b if a is not None and b is not None else None
        return None

    def block_d(body, fn, uses):
        """(d) rv = E (on every branch of the statement before);  a, b = rv   with rv read nowhere else: the branches assign a, b"""
        nonlocal done
        out: List[ast.stmt] = []
        for s_ in body:
            for fld in ("body", "orelse", "finalbody"):
                b = getattr(s_, fld, None)
                if isinstance(b, list) and b and isinstance(b[0], ast.stmt) and not isinstance(s_, (ast.FunctionDef, ast.ClassDef)):
                    setattr(s_, fld, block_d(b, fn, uses))
            for h in getattr(s_, "handlers", []) or []:
                h.body = block_d(h.body, fn, uses)
            if (out and isinstance(s_, ast.Assign) and len(s_.targets) == 1 and isinstance(s_.value, ast.Name) and isinstance(s_.targets[0], (ast.Tuple, ast.Name))
                    and s_.value.id in uses and s_.value.id != "__folded__"):
                rv = s_.value.id
                binds = last_binds(out[-1], rv)
                tnames = {x.id for x in ast.walk(s_.targets[0]) if isinstance(x, ast.Name)}
                if binds is not None and rv not in tnames and not any(isinstance(x, ast.Name) and x.id in tnames | {rv} for b_ in binds for x in ast.walk(b_.value)):
                    for b_ in binds:
                        b_.targets = [copy.deepcopy(s_.targets[0])]
                    uses["__folded__"].add(s_.value)
                    done += 1
                    continue
            out.append(s_)
        return out or [ast.Pass()]

    for t in trees.values():
        for fn in ast.walk(t):
            if isinstance(fn, ast.FunctionDef):
                uses: Dict[str, list] = {"__folded__": set()}
                unpacked = set()
                for x in ast.walk(fn):
                    if isinstance(x, ast.Name) and isinstance(x.ctx, ast.Load):
                        uses.setdefault(x.id, []).append(x)
                    if isinstance(x, ast.Assign) and len(x.targets) == 1 and isinstance(x.value, ast.Name):
                        unpacked.add(id(x.value))
                # only temporaries every read of which is such a hand-over  T = rv
                uses = {k: v for k, v in uses.items() if k == "__folded__" or all(id(u) in unpacked for u in v)}
                fn.body = block_d(fn.body, fn, uses)
                fn.body = block(fn.body, fn)
                fn.body = block_c(fn.body, fn)
    return done


# ---------------------------------------------------------------------------
# r = f(*self.g())      with g returning k values on every return      is read as      a, b, c = self.g(); r = f(a, b, c)
# ---------------------------------------------------------------------------
def expand_star_calls(trees: Dict[str, ast.Module]) -> int:
    """a call that hands on the k results of a helper by star-unpacking, f(x, *self.g(y)), where g is a function / method of the
    package that returns a k-tuple on every return: the results are bound to locals first (named as g names them when its returns
    agree, else _u0..), then passed one by one.  Only in a plain statement ( x = f(..) / f(..) / return f(..) ) whose other
    arguments are names, attributes or constants, so that evaluating g first changes nothing.  Returns the number of rewrites."""
    arity: Dict[str, set] = {}
    names_of: Dict[str, set] = {}
    for t in trees.values():
        for fn in ast.walk(t):
            if not isinstance(fn, ast.FunctionDef):
                continue
            rets = [r for r in _walk_no_nested(fn) if isinstance(r, ast.Return)]
            ks = {len(r.value.elts) if isinstance(r.value, ast.Tuple) and not any(isinstance(e, ast.Starred) for e in r.value.elts) else None for r in rets} or {None}
            arity.setdefault(fn.name, set()).update(ks)
            for r in rets:
                if isinstance(r.value, ast.Tuple):
                    names_of.setdefault(fn.name, set()).add(tuple(e.id if isinstance(e, ast.Name) else None for e in r.value.elts))
    done = 0

    def simple(e):
        return isinstance(e, (ast.Name, ast.Constant)) or (isinstance(e, ast.Attribute) and _chain(e))

    def rewrite(body, taken):
        nonlocal done
        out = []
        for s_ in body:
            for fld in ("body", "orelse", "finalbody"):
                b = getattr(s_, fld, None)
                if isinstance(b, list) and b and isinstance(b[0], ast.stmt) and not isinstance(s_, (ast.FunctionDef, ast.ClassDef)):
                    setattr(s_, fld, rewrite(b, taken))
            for h in getattr(s_, "handlers", []) or []:
                h.body = rewrite(h.body, taken)
            call = s_.value if isinstance(s_, (ast.Assign, ast.Expr, ast.Return)) and isinstance(getattr(s_, "value", None), ast.Call) else None
            stars = [a for a in call.args if isinstance(a, ast.Starred)] if call is not None else []
            if len(stars) == 1 and isinstance(stars[0].value, ast.Call) and all(simple(a) for a in call.args if a is not stars[0]) \
                    and all(simple(k.value) for k in call.keywords):
                g = stars[0].value
                gname = g.func.attr if isinstance(g.func, ast.Attribute) else (g.func.id if isinstance(g.func, ast.Name) else None)
                ks = arity.get(gname)
                if gname and ks and len(ks) == 1 and None not in ks:
                    k = next(iter(ks))
                    nm = names_of.get(gname, set())
                    names = list(next(iter(nm))) if len(nm) == 1 and all(n_ is not None for n_ in next(iter(nm))) and len(set(next(iter(nm)))) == k else [None] * k
                    names = [n_ if n_ is not None and n_ not in taken else f"_u{i}_{s_.lineno}" for i, n_ in enumerate(names)]
                    taken.update(names)
                    bind = ast.Assign(targets=[ast.Tuple(elts=[ast.Name(id=n_, ctx=ast.Store()) for n_ in names], ctx=ast.Store())], value=g)
                    i = call.args.index(stars[0])
                    call.args[i:i + 1] = [ast.Name(id=n_, ctx=ast.Load()) for n_ in names]
                    ast.copy_location(bind, s_)
                    ast.fix_missing_locations(bind)
                    ast.fix_missing_locations(s_)
                    out.append(bind)
                    done += 1
            out.append(s_)
        return out

    for t in trees.values():
        for fn in ast.walk(t):
            if isinstance(fn, ast.FunctionDef):
                taken = {x.id for x in ast.walk(fn) if isinstance(x, ast.Name)} | {a.arg for a in fn.args.args + fn.args.kwonlyargs}
                fn.body = rewrite(fn.body, taken)
    # f(a, **self.h())  with h a method without parameters whose body is  return {'k1': <self.x.y>, ..}  - the keywords it spells
    tables: Dict[str, list] = {}
    for t in trees.values():
        for fn in ast.walk(t):
            if isinstance(fn, ast.FunctionDef):
                body = [s_ for s_ in fn.body if not (isinstance(s_, ast.Expr) and isinstance(s_.value, ast.Constant))]
                d = body[0].value if len(body) == 1 and isinstance(body[0], ast.Return) and isinstance(body[0].value, ast.Dict) else None
                ok = (d is not None and [a.arg for a in fn.args.args] == ["self"] and not fn.args.kwonlyargs and not fn.args.vararg and not fn.args.kwarg and d.keys
                      and all(isinstance(k, ast.Constant) and isinstance(k.value, str) and k.value.isidentifier() for k in d.keys)
                      and all(isinstance(v, ast.Constant) or (isinstance(v, ast.Attribute) and _chain(v) and _chain_text(v).startswith("self.")) for v in d.values))
                tables.setdefault(fn.name, []).append(d if ok else None)
    for t in trees.values():
        for c in ast.walk(t):
            if not isinstance(c, ast.Call):
                continue
            for kw in list(c.keywords):
                v = kw.value
                if kw.arg is None and isinstance(v, ast.Call) and not v.args and not v.keywords and isinstance(v.func, ast.Attribute) and isinstance(v.func.value, ast.Name) \
                        and v.func.value.id == "self" and len(tables.get(v.func.attr, [])) == 1 and tables[v.func.attr][0] is not None:
                    d = tables[v.func.attr][0]
                    if {k.value for k in d.keys} & {k.arg for k in c.keywords if k.arg}:
                        continue
                    i = c.keywords.index(kw)
                    c.keywords[i:i + 1] = [ast.keyword(arg=k.value, value=copy.deepcopy(x)) for k, x in zip(d.keys, d.values)]
                    ast.fix_missing_locations(c)
                    done += 1
    return done


# ---------------------------------------------------------------------------
# t = f(..); a = t[0]; b = t[1]      is read as      a, b = f(..)
# ---------------------------------------------------------------------------
def fold_unpack_temporaries(trees: Dict[str, ast.Module]) -> int:
    """a call result held in a local that is used for nothing but being taken apart by consecutive constant subscripts 0..k-1
    right after the call is the tuple assignment it stands for.  Returns the number of folds."""
    done = 0

    def fold(body, uses):
        nonlocal done
        out = []
        i = 0
        while i < len(body):
            s = body[i]
            for fld in ("body", "orelse", "finalbody"):
                b = getattr(s, fld, None)
                if isinstance(b, list) and b and isinstance(b[0], ast.stmt) and not isinstance(s, (ast.FunctionDef, ast.ClassDef)):
                    setattr(s, fld, fold(b, uses))
            for h in getattr(s, "handlers", []) or []:
                h.body = fold(h.body, uses)
            if isinstance(s, ast.Assign) and len(s.targets) == 1 and isinstance(s.targets[0], ast.Name) and isinstance(s.value, ast.Call):
                t = s.targets[0].id
                names = []
                j = i + 1
                while j < len(body):
                    n = body[j]
                    if (isinstance(n, ast.Assign) and len(n.targets) == 1 and isinstance(n.targets[0], ast.Name) and isinstance(n.value, ast.Subscript) and isinstance(n.value.value, ast.Name)
                            and n.value.value.id == t and isinstance(n.value.slice, ast.Constant) and n.value.slice.value == len(names) and n.targets[0].id != t):
                        names.append(n.targets[0].id)
                        j += 1
                    else:
                        break
                if len(names) >= 2 and uses.get(t, 0) == len(names) and len({n_ for n_ in names if n_ != '_'}) == len([n_ for n_ in names if n_ != '_']):
                    new = ast.Assign(targets=[ast.Tuple(elts=[ast.Name(id=n_, ctx=ast.Store()) for n_ in names], ctx=ast.Store())], value=s.value)
                    ast.copy_location(new, s)
                    ast.fix_missing_locations(new)
                    out.append(new)
                    i = j
                    done += 1
                    continue
            out.append(s)
            i += 1
        return out

    for t in trees.values():
        for fn in ast.walk(t):
            if isinstance(fn, ast.FunctionDef):
                uses = {}
                for x in ast.walk(fn):
                    if isinstance(x, ast.Name) and isinstance(x.ctx, ast.Load):
                        uses[x.id] = uses.get(x.id, 0) + 1
                fn.body = fold(fn.body, uses)
    return done
