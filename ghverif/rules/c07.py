"""C07 - hybrid loads retain each month's peaks (magnitude, sign, placement, own duration).

Decided, on every path through one month of HybridLoad.process_month_loads:

  R07.1  presence / magnitude / sign: in a peak-retention month a pulse +monthly_peak_cl[i] is emitted
         iff the path assumes monthly_peak_cl[i] > 0, a pulse -monthly_peak_hl[i] iff it assumes
         monthly_peak_hl[i] > 0; every other load of the month is the one monthly average;
         months outside the retention window emit only the average
  R07.2  retention window: the include-peak flag is set for i < start + 12 and i > end - 12
         (single-year loads), default False
  R07.3  placement and span: a pulse lasts exactly its own duration; on different peak days it is
         centred on first_month_hour(i) + day*24 + 12; on the same day the cooling pulse ends and the
         heating pulse starts at that hour; a pulse is always preceded by an average segment of its
         own month
  R07.4  48 h window: the two-day profile is [p + (day-1)*24 : +48] of the year prefixed with its last
         24 h, p starting at the prefix length and advancing by the month's hours; cooling uses the
         rejection series and cooling day, heating the extraction series and heating day
  R07.7  each direction's duration is simulated from its own two-day profile, peak, average; stored under its own name
  R07.8  duration = time at which the (peak - average) step response reaches the maximum of the nominal two-day response
  R07.6  peak and peak day come from the same month window: peak = max(window),
         day = floor(window.index(peak) / 24)

Not decided (numerical): durations positive and <= 48 h, and the Cullin-Spitler equivalence that
defines them (interpolation of one simulated curve at the maximum of another).
"""
from __future__ import annotations

import ast

from .. import sym
from ..model import AnalysisError, inline_single_defs, Program, attr_chain, norm_stmt
from ..paths import Engine, Hooks, State, Seq, Const
from ..report import Result
from ..selftest import Variant
from ..sym import Rat
from . import hybrid_common as hc

PROP = "C07"
TITLE = "Hybrid loads retain each month's peaks with their own magnitude, sign, position and span"
EXPLANATION = (
    "Same path enumeration as C06 (one month of process_month_loads, sliced on the load/hour appends). "
    "Per distinct emission word: loads are classified as +peak_cl / -peak_hl / monthly average by normal-form "
    "equality, pulse presence is compared with the path's assumptions on the peaks, pulse span and placement are "
    "rational identities against first_month_hour(i) + day*24 + 12.  The include-peak flags, the two-day window "
    "slices and the provenance of peak / peak day are checked on their own functions.  Peak durations themselves "
    "(positivity, <= 48 h, Cullin-Spitler equivalence) are numerical and not decided."
)
ASSUMPTIONS = [
    "paths through the four 'pulse would start before hour 0' clamps are excluded",
    "list.index / max / floor have their library meaning",
]

GL = "ghedesigner.ground_loads"
CLS = f"{GL}.HybridLoad"


def _classify(l: Rat, A) -> str:
    if l.equals(A["PCL"]):
        return "cool"
    if l.equals(-A["PHL"]):
        return "heat"
    if l.equals(-A["PCL"]):
        return "cool-wrong-sign"
    if l.equals(A["PHL"]):
        return "heat-wrong-sign"
    return "avg"


def check(prog: Program, tier: str) -> Result:
    res = Result(PROP)
    ma = hc.analyse(prog, loop_bound=1 if tier == "quick" else 2)
    fi = ma.fi
    A = ma.atoms
    res.analysed(fi.qualname)
    res.count("paths", len(ma.paths))
    fmh, lmh = hc.calendar_atoms(ma)
    seen = set()
    for p in ma.paths:
        if p.clamped or len(p.loads) != len(p.hours) or not p.loads:
            continue
        if any(not isinstance(x, Rat) for x in p.loads + p.hours):
            raise AnalysisError(f"{fi.qualname}: emitted value not understood")
        word = " | ".join(f"{l.key()} @ {h.key()}" for l, h in zip(p.loads, p.hours))
        sig = p.signature()
        if (sig, word) in seen:
            continue
        seen.add((sig, word))
        res.count("distinct_words")
        kinds = [_classify(l, A) for l in p.loads]
        where0 = hc.path_where(prog, ma, p)
        # ---- R07.1
        avgs = [l for l, k in zip(p.loads, kinds) if k == "avg"]
        ok_avg = all(a.equals(avgs[0]) for a in avgs) if avgs else True
        n_cool, n_heat = kinds.count("cool"), kinds.count("heat")
        wrong = [k for k in kinds if k.endswith("wrong-sign")]
        problems = []
        if wrong:
            problems.append(f"pulse with the wrong sign: {wrong}")
        if not ok_avg:
            odd = next(a for a in avgs if not a.equals(avgs[0]))
            problems.append(f"a load that is neither the month's peak nor its average: {odd.key()[:160]}")
        if p.ipf is False:
            if n_cool or n_heat:
                problems.append("pulse emitted in a month outside the retention window")
        else:
            exp_c = {True: 1, False: 0}.get(p.has_cl)
            exp_h = {True: 1, False: 0}.get(p.has_hl)
            if p.ipf is True:
                if exp_c is not None and n_cool != exp_c:
                    problems.append(f"{n_cool} cooling pulse(s) on a path that assumes monthly_peak_cl[i] > 0 is {p.has_cl}")
                if exp_h is not None and n_heat != exp_h:
                    problems.append(f"{n_heat} heating pulse(s) on a path that assumes monthly_peak_hl[i] > 0 is {p.has_hl}")
                # a pulse must be backed by the assumption "peak > 0": `>= 0` would place a zero pulse in a month without load
                if n_cool and p.has_cl is not True:
                    problems.append("a cooling pulse is emitted on a path that has not established monthly_peak_cl[i] > 0 (a month without rejection gets a pulse)")
                if n_heat and p.has_hl is not True:
                    problems.append("a heating pulse is emitted on a path that has not established monthly_peak_hl[i] > 0 (a month without extraction gets a pulse)")
                if exp_c is None and n_cool == 0 and exp_h is None and n_heat == 0 and len(p.loads) == 1:
                    # retention month whose emission does not depend on the peaks at all
                    problems.append("retention month emits only the average regardless of its peaks")
        res.ob("R07.1", f"pulse presence/sign/magnitude on path [{sig}]: kinds={kinds}", not problems, where0)
        for pr in problems:
            res.violation("R07.1", f"{sig}|{pr[:80]}|{kinds}", where0, fi.qualname, f"{pr} (path [{sig}])",
                          loads=[l.key()[:200] for l in p.loads], path=hc.describe_trail(p.state))
        # ---- R07.3
        mapping = {}
        if p.day_rel == "=" and p.ipf is not False:
            mapping[next(iter(A["KCL"].atoms()))] = A["KHL"]
        for k, kind in enumerate(kinds):
            if kind not in ("cool", "heat"):
                continue
            D = A["DCL"] if kind == "cool" else A["DHL"]
            K = A["KCL"] if kind == "cool" else A["KHL"]
            noon = (fmh + K * Rat.const(24) + Rat.const(12)).subs(mapping)
            wk = hc.path_where(prog, ma, p, 2 * k)
            if k == 0:
                res.ob("R07.3", f"{kind} pulse preceded by an average segment of its month on path [{sig}]", False, wk)
                res.violation("R07.3", f"{sig}|{kind}|first-pair", wk, fi.qualname,
                              f"the {kind} pulse is the first pair of its month on the path [{sig}]: it starts at the previous "
                              f"month's end instead of lasting its own duration",
                              pairs=[f"{l.key()[:120]} @ {h.key()[:120]}" for l, h in zip(p.loads, p.hours)],
                              path=hc.describe_trail(p.state))
                continue
            h1, h0 = p.hours[k].subs(mapping), p.hours[k - 1].subs(mapping)
            ok_span = (h1 - h0).equals(D)
            res.ob("R07.3", f"{kind} pulse spans its own duration on path [{sig}]", ok_span, wk)
            if not ok_span:
                res.violation("R07.3", f"{sig}|{kind}|span", wk, fi.qualname,
                              f"the {kind} pulse spans {(h1 - h0).key()[:200]} instead of its duration {D.key()} on the path [{sig}]",
                              path=hc.describe_trail(p.state))
            if p.day_rel in ("<", ">"):
                ok_pl = ((h1 + h0) / Rat.const(2)).equals(noon)
                what = "centred on noon of its peak day"
            elif p.day_rel == "=":
                ok_pl = h1.equals(noon) if kind == "cool" else h0.equals(noon)
                what = "ends at noon of the common peak day" if kind == "cool" else "starts at noon of the common peak day"
            else:
                raise AnalysisError(f"{fi.qualname}: a pulse is emitted on a path that does not order the two peak days: [{sig}]")
            res.ob("R07.3", f"{kind} pulse {what} on path [{sig}]", ok_pl, wk)
            if not ok_pl:
                res.violation("R07.3", f"{sig}|{kind}|placement", wk, fi.qualname,
                              f"the {kind} pulse [{h0.key()[:120]}, {h1.key()[:120]}] is not {what} ({noon.key()}) on the path [{sig}]",
                              path=hc.describe_trail(p.state))
    res.floor("paths", 40)
    res.floor("distinct_words", 8)

    _check_ipf(prog, res, ma)
    _check_two_day(prog, res)
    _check_peak_provenance(prog, res)
    _check_duration_definition(prog, res)
    return res


_NEG_OP = {ast.Eq: ast.NotEq, ast.NotEq: ast.Eq, ast.Lt: ast.GtE, ast.GtE: ast.Lt, ast.Gt: ast.LtE, ast.LtE: ast.Gt}


def _negated(e: ast.expr) -> ast.expr:
    if isinstance(e, ast.UnaryOp) and isinstance(e.op, ast.Not):
        return e.operand
    if isinstance(e, ast.Compare) and len(e.ops) == 1 and type(e.ops[0]) in _NEG_OP:
        return ast.Compare(left=e.left, ops=[_NEG_OP[type(e.ops[0])]()], comparators=e.comparators)
    if isinstance(e, ast.BoolOp):
        return ast.BoolOp(op=ast.And() if isinstance(e.op, ast.Or) else ast.Or(), values=[_negated(v) for v in e.values])
    return ast.UnaryOp(op=ast.Not(), operand=e)


def _running_condition(guard: ast.If, call: ast.Call) -> ast.expr:
    """the condition under which `call` runs: the guard's test when it is in the body, its negation when in the else branch"""
    in_else = any(call is x for s_ in guard.orelse for x in ast.walk(s_))
    return ast.fix_missing_locations(_negated(guard.test)) if in_else else guard.test


def _check_duration_definition(prog: Program, res: Result):
    """R07.7 pairing of each direction's own data in find_peak_durations; R07.8 the duration is where the
    peak-step response reaches the maximum of the nominal two-day response"""
    q = f"{CLS}.find_peak_durations"
    fi = prog.func(q)
    res.analysed(q)
    loops = [n for n in fi.node.body if isinstance(n, ast.For)]
    if len(loops) != 1 or not isinstance(loops[0].target, ast.Name):
        raise AnalysisError(f"{q}: month loop not found")
    iv = loops[0].target.id
    defs = {}
    tuple_defs = {}
    for s_ in ast.walk(loops[0]):
        if isinstance(s_, ast.Assign) and len(s_.targets) == 1 and isinstance(s_.targets[0], ast.Name):
            defs.setdefault(s_.targets[0].id, []).append(s_)
        if isinstance(s_, ast.Assign) and len(s_.targets) == 1 and isinstance(s_.targets[0], ast.Tuple):
            for e_ in s_.targets[0].elts:
                if isinstance(e_, ast.Name):
                    tuple_defs.setdefault(e_.id, []).append(s_)
    calls = sorted([c for c in ast.walk(loops[0]) if isinstance(c, ast.Call) and attr_chain(c.func) == "self.perform_current_month_simulation"], key=lambda c: c.lineno)
    if len(calls) != 2:
        raise AnalysisError(f"{q}: expected two peak-duration simulations (cooling, heating)")
    pcs = prog.func(f"{CLS}.perform_current_month_simulation")
    from ..model import bind_args

    def tags(expr_src: str) -> set:
        out = set()
        for t in ("_cl", "_hl"):
            if t in expr_src:
                out.add(t[1:])
        return out

    def resolve(node, before):
        # textual closure of a local name through its latest definitions before the call
        txt = ast.unparse(node)
        for _ in range(4):
            names = {n.id for n in ast.walk(ast.parse(txt, mode="eval")) if isinstance(n, ast.Name)}
            rep = False
            for nm in names:
                ds = [d for d in defs.get(nm, []) if d.lineno < before]
                if ds:
                    txt = txt.replace(nm, "(" + ast.unparse(ds[-1].value) + ")")
                    rep = True
            if not rep:
                break
        return txt

    # every monthly quantity read or written inside the loop belongs to the loop's own month
    bad_idx = []
    n_sub = 0
    for n_ in ast.walk(loops[0]):
        if isinstance(n_, ast.Subscript) and (attr_chain(n_.value) or "").startswith(("self.monthly_", "self.two_day_hourly_peak_")) and not isinstance(n_.slice, ast.Slice):
            n_sub += 1
            if ast.unparse(n_.slice) != iv:
                bad_idx.append(n_)
    res.ob("R07.7", f"find_peak_durations: all {n_sub} reads / writes of monthly arrays and two-day profiles in the month loop use the loop's own month index", not bad_idx and n_sub >= 8, prog.loc(fi, loops[0]))
    for n_ in bad_idx[:2]:
        res.violation("R07.7", f"month-index|{ast.unparse(n_)[:60]}", prog.loc(fi, n_), q, f"'{ast.unparse(n_)[:80]}' reads another month's value inside the loop over month {iv}: the duration of month {iv} is computed from a neighbour's peak / average / profile")
    for c, tag in zip(calls, ("cl", "hl")):
        b = bind_args(pcs, c)
        used = set()
        per_arg = {}
        for k, v in b.items():
            t = tags(resolve(v, c.lineno))
            per_arg[k] = sorted(t)
            used |= t
        ok = used == {tag} and all(per_arg.get(k) == [tag] for k in ("two_day_hourly_peak_load", "peak_load", "avg_load", "two_day_fluid_temps_pk", "two_day_fluid_temps_nm"))
        res.ob("R07.7", f"{'cooling' if tag == 'cl' else 'heating'} duration is simulated from its own two-day profile, peak, average and temperature logs ({per_arg})", ok, prog.loc(fi, c))
        if not ok:
            res.violation("R07.7", f"pairing|{tag}|{sorted(per_arg.items())}", prog.loc(fi, c), q,
                          f"the {'cooling' if tag == 'cl' else 'heating'} peak duration mixes data of the two directions: {per_arg}")
        # stored under the same direction, for this month; absent peak -> sentinel
        guard = next((n for n in ast.walk(loops[0]) if isinstance(n, ast.If) and any(c is x for x in ast.walk(n))), None)
        gsrc = resolve(_running_condition(guard, c), guard.lineno) if guard is not None else ""
        okg = guard is not None and tags(gsrc) == {tag} and ("!=0" in gsrc.replace(" ", "") or ">0" in gsrc.replace(" ", ""))
        res.ob("R07.7", f"the {'cooling' if tag == 'cl' else 'heating'} simulation runs only for a non-zero {tag} peak", okg, prog.loc(fi, guard) if guard is not None else prog.loc(fi, c))
        if not okg:
            res.violation("R07.7", f"guard|{tag}|{gsrc[:60]}", prog.loc(fi, c), q, f"the {tag} duration simulation is guarded by '{gsrc[:80]}' instead of that direction's peak being non-zero")
        # the first store into a duration array after this call (and before the next call) must be this direction's
        nxt = min((c2.lineno for c2 in calls if c2.lineno > c.lineno), default=10 ** 9)
        stores = sorted([s_ for s_ in ast.walk(loops[0]) if isinstance(s_, ast.Assign) and isinstance(s_.targets[0], ast.Subscript) and (attr_chain(s_.targets[0].value) or "").startswith("self.monthly_peak_")
                         and (attr_chain(s_.targets[0].value) or "").endswith("_duration") and c.lineno < s_.lineno], key=lambda s_: s_.lineno)
        stores = [s_ for s_ in stores if s_.lineno < nxt or tag == "hl"]
        store = [s_ for s_ in stores if attr_chain(s_.targets[0].value) == f"self.monthly_peak_{tag}_duration" and ast.unparse(s_.targets[0].slice) == iv]
        wrong = [s_ for s_ in stores if s_ not in store and (s_.lineno < nxt)]

        def from_call(nm, depth=0):
            # the local is bound to the simulation's result, directly or through a plain copy (result = duration)
            for d in defs.get(nm, []) + tuple_defs.get(nm, []):
                if not (c.lineno <= d.lineno < nxt or tag == "hl" and c.lineno <= d.lineno):
                    continue
                if any(c is x for x in ast.walk(d)):
                    return True
                if depth < 3 and isinstance(d.value, ast.Name) and d.value.id != nm and from_call(d.value.id, depth + 1):
                    return True
            return False

        oks = bool(store) and not wrong and isinstance(store[0].value, ast.Name) and from_call(store[0].value.id)
        res.ob("R07.7", f"its result is stored in monthly_peak_{tag}_duration[{iv}]", oks, prog.loc(fi, store[0]) if store else prog.loc(fi, c))
        if not oks:
            res.violation("R07.7", f"store|{tag}", prog.loc(fi, c), q, f"the simulated {tag} duration is not what is stored in monthly_peak_{tag}_duration[{iv}]")
    # R07.8 definition
    q = f"{CLS}.perform_current_month_simulation"
    fi = prog.func(q)
    res.analysed(q)
    defs = {s_.targets[0].id: s_.value for s_ in ast.walk(fi.node) if isinstance(s_, ast.Assign) and len(s_.targets) == 1 and isinstance(s_.targets[0], ast.Name)}
    sims = {k: v for k, v in defs.items() if isinstance(v, ast.Call) and attr_chain(v.func) == "self.simulate_hourly"}
    sh = prog.func(f"{CLS}.simulate_hourly")
    def rs(node):
        """source of an argument, locals resolved one step through their (single) definition"""
        if isinstance(node, ast.Name) and node.id in defs:
            return ast.unparse(defs[node.id]).replace(" ", "")
        return ast.unparse(node).replace(" ", "") if node is not None else None

    by_load = {}
    profile_param = fi.params()[1] if len(fi.params()) > 1 else None  # self, two_day_hourly_peak_load, ...
    for k, v in sims.items():
        b = bind_args(sh, v)
        qa = b.get("q")
        qd = defs.get(qa.id) if isinstance(qa, ast.Name) else qa
        uses_profile = qd is not None and any(isinstance(x, ast.Name) and x.id == profile_param for x in ast.walk(qd))
        by_load["q_nominal" if uses_profile else "q_peak"] = (k, b)
    ok = set(by_load) == {"q_peak", "q_nominal"} and len(sims) == 2
    if not ok:
        raise AnalysisError(f"{q}: the two hourly simulations (constant peak-step load, profile-shaped nominal load) not found")
    pk_name, nom_name = by_load["q_peak"][0], by_load["q_nominal"][0]
    same_args = all(rs(by_load["q_peak"][1].get(a)) == rs(by_load["q_nominal"][1].get(a)) for a in ("hour_time", "g_sts", "resist_bh", "two_pi_k", "ts"))
    res.ob("R07.8", "peak-step and nominal two-day responses are simulated with the same time axis, g-function, resistance and soil", same_args, prog.loc(fi, fi.node))
    if not same_args:
        res.violation("R07.8", "responses-different-models", prog.loc(fi, fi.node), q, "the peak-step and the nominal two-day responses are simulated with different parameters")
    bq = by_load["q_peak"][1]
    okm = rs(bq.get("g_sts")) == "self.radial_numerical.g_sts" and rs(bq.get("ts")) == "self.radial_numerical.t_s" \
        and rs(bq.get("resist_bh")) == "self.bhe.calc_effective_borehole_resistance()" and rs(bq.get("two_pi_k")) in ("TWO_PI*self.bhe.soil.k", "self.bhe.soil.k*TWO_PI")
    res.ob("R07.8", "they use the short-time g-function and t_s of the radial model, Rb* of the borehole and 2 pi k_soil", okm, prog.loc(fi, fi.node))
    if not okm:
        res.violation("R07.8", "response-parameters", prog.loc(fi, fi.node), q, "the two-day responses no longer use radial_numerical.g_sts / t_s, the effective borehole resistance and 2 pi k_soil")
    ht_arg = bq.get("hour_time")
    ht_name = ht_arg.id if isinstance(ht_arg, ast.Name) else None
    ht = defs.get(ht_name) if ht_name else ht_arg
    if ht is not None:
        from .search_common import expand_locals

        ht_x = expand_locals(fi.node, ht, getattr(bq.get("hour_time"), "lineno", 10 ** 9))
        # the number of points, as a value: 2 * HRS_IN_DAY + 1 however it is spelled (n_hours = 2 * HRS_IN_DAY; .. n_hours + 1)
        e_ = Engine(prog, fi, Hooks())
        n_arg = None
        if isinstance(ht_x, ast.Call) and attr_chain(ht_x.func) in ("np.arange", "numpy.arange") and len(ht_x.args) in (1, 2) and not ht_x.keywords:
            if len(ht_x.args) == 1 or (isinstance(ht_x.args[0], ast.Constant) and ht_x.args[0].value == 0):
                n_arg = ht_x.args[-1]
        elif isinstance(ht_x, ast.Call) and attr_chain(ht_x.func) in ("np.array", "numpy.array", "np.asarray") and len(ht_x.args) == 1 and isinstance(ht_x.args[0], ast.Call) \
                and attr_chain(ht_x.args[0].func) == "range" and len(ht_x.args[0].args) == 1:
            n_arg = ht_x.args[0].args[0]
        n_val = e_.eval(n_arg, State()) if n_arg is not None else None
        okh = isinstance(n_val, Rat) and n_val.equals(Rat.const(2) * e_.eval(ast.parse("HRS_IN_DAY", mode="eval").body, State()) + Rat.const(1))
    else:
        okh = False
    res.ob("R07.8", f"the time axis is 0..48 h in hourly steps ({ast.unparse(ht) if ht is not None else '?'})", okh, prog.loc(fi, fi.node))
    if not okh:
        res.violation("R07.8", f"hour-axis|{ast.unparse(ht)[:50] if ht is not None else None}", prog.loc(fi, fi.node), q, f"the two-day time axis is {ast.unparse(ht) if ht is not None else '?'} instead of the 49 hourly points 0..48")
    # duration = interp1d(peak response -> time)(max of nominal response), sentinel when the nominal response never rises
    itp = [k for k, v in defs.items() if isinstance(v, ast.Call) and attr_chain(v.func) == "interp1d"]
    okd = False
    if len(itp) == 1:
        v = defs[itp[0]]
        okx = len(v.args) >= 2 and ast.unparse(v.args[0]) == pk_name and ht_name is not None and ast.unparse(v.args[1]) == ht_name
        mx = next((k for k, d in defs.items() if isinstance(d, ast.Call) and attr_chain(d.func) == "max" and len(d.args) == 1 and ast.unparse(d.args[0]) == nom_name), None)
        use = [n for n in ast.walk(fi.node) if isinstance(n, ast.Call) and isinstance(n.func, ast.Name) and n.func.id == itp[0] and len(n.args) == 1 and mx is not None and ast.unparse(n.args[0]) == mx]
        grd = [n for n in ast.walk(fi.node) if isinstance(n, ast.If) and use and any(use[0] is x for b_ in n.body for x in ast.walk(b_))]
        okgd = False
        if grd and mx is not None:
            from ..paths import cmp_is

            e_ = Engine(prog, fi, Hooks())
            s_ = State()
            s_.env[mx] = Rat.atom("MX")
            okgd = cmp_is(e_.cond(grd[0].test, s_), Rat.atom("MX"), "+")
        okd = okx and bool(use) and okgd
    res.ob("R07.8", "duration = time at which the peak-step response equals max(nominal two-day response) (inverse interpolation), only if that maximum is positive", okd, prog.loc(fi, fi.node))
    if not okd:
        res.violation("R07.8", "duration-definition", prog.loc(fi, fi.node), q,
                      "the peak duration is no longer the time at which the (peak - average) step response reaches the maximum of the peak-scaled two-day response (interp1d(peak response, hour)(max(nominal response)))")


# ---------------------------------------------------------------------------
def _int_canon(c, I: Rat):
    """comparison over integers -> (expr, '<0' | '>0') with the coefficient of I positive;  a <= 0 == a - 1 < 0"""
    if c.kind != "cmp":
        return None
    a, sg = c.a, c.s
    if sg == frozenset("-"):
        e, rel = a, "<0"
    elif sg == frozenset("-0"):
        e, rel = a - Rat.const(1), "<0"
    elif sg == frozenset("+"):
        e, rel = a, ">0"
    elif sg == frozenset("+0"):
        e, rel = a + Rat.const(1), ">0"
    else:
        return None
    # orientation: make d(e)/dI = +1
    probe = e.subs({I.key(): I + Rat.const(1)}) - e
    if probe.is_const() and probe.const_value() < 0:
        e, rel = -e, (">0" if rel == "<0" else "<0")
    return e, rel


def _check_ipf(prog: Program, res: Result, ma: hc.MonthAnalysis):
    """R07.2 - what is decided is the predicate 'flag[i] is True' of single-year loads, whatever its shape (a loop of guarded
    stores over a False-initialised list, or a comprehension): it must be  i < start + retain_start  or  i > end - retain_end"""
    fi = ma.fi
    NAME = ma.flag_name
    eng = Engine(prog, fi, Hooks())
    st = State()
    I = Rat.atom(ma.loop_var)
    # the branch taken by single-year loads
    branch = None
    for n in fi.node.body:
        if isinstance(n, ast.If) and "len(self.years)" in ast.unparse(n.test):
            defines = lambda blk: any(isinstance(x, ast.Name) and x.id == NAME and isinstance(x.ctx, ast.Store) for b in blk for x in ast.walk(b))  # noqa: E731
            if defines(n.body) or defines(n.orelse):
                pol = _is_single_year_branch(eng, st, [(n, True)])
                if pol is None:
                    raise AnalysisError(f"{fi.qualname}: branch on len(self.years) not understood")
                branch = n.body if pol else n.orelse
    if branch is None:
        raise AnalysisError(f"{fi.qualname}: initialisation of the include-peak flags ({NAME}) for single-year loads not found")
    disjuncts = []  # (Cond over I, node)
    init_seen = False
    for b in branch:
        if isinstance(b, ast.Assign) and len(b.targets) == 1 and isinstance(b.targets[0], ast.Name) and b.targets[0].id != NAME:
            eng._s_Assign(b, st)
            continue
        if isinstance(b, ast.Assign) and len(b.targets) == 1 and isinstance(b.targets[0], ast.Name) and b.targets[0].id == NAME:
            v = b.value
            init_seen = True
            if isinstance(v, ast.BinOp) and isinstance(v.op, ast.Mult) and isinstance(v.left, ast.List) and len(v.left.elts) == 1 and isinstance(v.left.elts[0], ast.Constant):
                init_ok = v.left.elts[0].value is False
                res.ob("R07.2", "single-year loads: include-peak flags default to False", init_ok, prog.loc(fi, b))
                if not init_ok:
                    res.violation("R07.2", "ipf-default", prog.loc(fi, b), fi.qualname,
                                  "the include-peak flags do not default to False for single-year loads "
                                  "(months between the first and last twelve would retain peaks)")
                ln = eng.eval(inline_single_defs(fi.node, v.right), st)
                okl = isinstance(ln, Rat) and ln.equals(Rat.atom("self.end_month") + Rat.const(1))
                if not okl:
                    raise AnalysisError(f"{fi.qualname}: length of the flag list not understood: {ast.unparse(v.right)}")
            elif isinstance(v, ast.ListComp) and len(v.generators) == 1 and not v.generators[0].ifs and isinstance(v.generators[0].target, ast.Name):
                g = v.generators[0]
                it = g.iter
                okr = isinstance(it, ast.Call) and attr_chain(it.func) == "range" and len(it.args) == 1
                up = eng.eval(it.args[0], st) if okr else None
                if not (okr and isinstance(up, Rat) and up.equals(Rat.atom("self.end_month") + Rat.const(1))):
                    raise AnalysisError(f"{fi.qualname}: the flag comprehension does not run over range(self.end_month + 1)")
                s2 = st.fork()
                s2.env[g.target.id] = I
                c = eng.cond(v.elt, s2)
                parts = c.a if c.kind == "or" else [c]
                for c_ in parts:
                    disjuncts.append((c_, b))
                res.ob("R07.2", "single-year loads: the flags are a predicate of the month index over range(end_month + 1)", True, prog.loc(fi, b))
            else:
                raise AnalysisError(f"{fi.qualname}: definition of the flag list not understood: {norm_stmt(b)[:80]}")
            continue
        if isinstance(b, ast.For) and isinstance(b.target, ast.Name):
            okr = isinstance(b.iter, ast.Call) and attr_chain(b.iter.func) == "range" and len(b.iter.args) == 2
            if okr:
                lo, hi = eng.eval(b.iter.args[0], st), eng.eval(b.iter.args[1], st)
                okr = isinstance(lo, Rat) and isinstance(hi, Rat) and lo.equals(Rat.atom("self.start_month")) and hi.equals(Rat.atom("self.end_month") + Rat.const(1))
            stores = []

            def walk(stmts, guards):
                for x in stmts:
                    if isinstance(x, ast.If):
                        walk(x.body, guards + [(x.test, True)])
                        walk(x.orelse, guards + [(x.test, False)])
                    elif isinstance(x, ast.Assign) and any(isinstance(t, ast.Subscript) and isinstance(t.value, ast.Name) and t.value.id == NAME for t in x.targets):
                        stores.append((x, guards))

            walk(b.body, [])
            if stores and not okr:
                raise AnalysisError(f"{fi.qualname}: the flag loop does not run over range(start_month, end_month + 1)")
            for x, guards in stores:
                t = x.targets[0]
                if not (isinstance(x.value, ast.Constant) and x.value.value is True and ast.unparse(t.slice) == b.target.id):
                    res.violation("R07.2", f"ipf-write:{norm_stmt(x)}", prog.loc(fi, x), fi.qualname,
                                  f"include-peak flag written with something other than True at the loop's own index: {norm_stmt(x)}")
                    continue
                if len(guards) != 1 or not guards[0][1]:
                    raise AnalysisError(f"{fi.qualname}: guard of '{norm_stmt(x)}' not understood")
                s2 = st.fork()
                s2.env[b.target.id] = I
                c = eng.cond(guards[0][0], s2)
                for c_ in (c.a if c.kind == "or" else [c]):
                    disjuncts.append((c_, x))
            continue
    if not init_seen:
        raise AnalysisError(f"{fi.qualname}: initialisation of the include-peak flags for single-year loads not found")
    want_first = (I - Rat.atom("self.start_month") - Rat.atom("self.peak_retain_start"))
    want_last = (I - Rat.atom("self.end_month") + Rat.atom("self.peak_retain_end"))
    got_first = got_last = False
    for c, n in disjuncts:
        cn = _int_canon(c, I)
        if cn is None:
            raise AnalysisError(f"{fi.qualname}: include-peak condition is not a comparison: {c.key()}")
        e, rel = cn
        if rel == "<0" and e.equals(want_first):
            got_first = True
        elif rel == ">0" and e.equals(want_last):
            got_last = True
        else:
            res.violation("R07.2", f"ipf-guard:{e.key()}{rel}", prog.loc(fi, n), fi.qualname,
                          f"include-peak flag set under an unexpected condition: {e.key()} {rel[0]} 0 "
                          f"(expected i < start_month + peak_retain_start or i > end_month - peak_retain_end)")
    res.ob("R07.2", "flag set for i < start_month + peak_retain_start", got_first, prog.loc(fi, fi.node))
    res.ob("R07.2", "flag set for i > end_month - peak_retain_end", got_last, prog.loc(fi, fi.node))
    if not got_first:
        res.violation("R07.2", "ipf-first-missing", prog.loc(fi, fi.node), fi.qualname,
                      "no include-peak assignment under i < start_month + peak_retain_start")
    if not got_last:
        res.violation("R07.2", "ipf-last-missing", prog.loc(fi, fi.node), fi.qualname,
                      "no include-peak assignment under i > end_month - peak_retain_end")
    # constants in __init__
    init = prog.func(f"{CLS}.__init__")
    res.analysed(init.qualname)
    e2 = Engine(prog, init, Hooks())
    finals = [s for s in e2.run_function() if s.exit is None or s.exit[0] == "return"]
    checked = 0
    for s in finals:
        single = s.decide(e2.cond(ast.parse("len(years) <= 1", mode="eval").body, s))
        if single is not True:
            continue
        checked += 1
        a, b = s.env.get("self.peak_retain_start"), s.env.get("self.peak_retain_end")
        ok = isinstance(a, Rat) and isinstance(b, Rat) and a.is_const() and b.is_const() and a.const_value() == 12 and b.const_value() == 12
        res.ob("R07.2", f"single-year loads: peak_retain_start = peak_retain_end = 12 (got {a}, {b})", ok, prog.loc(init, init.node))
        if not ok:
            res.violation("R07.2", f"retain-constants:{a}:{b}", prog.loc(init, init.node), init.qualname,
                          f"peaks are retained for {a} / {b} months instead of the first and last twelve")
    if not checked:
        raise AnalysisError(f"{init.qualname}: no path with len(years) <= 1 found")


def _is_single_year_branch(eng, st, guards):
    """True if the (guard, polarity) stack selects the branch taken when len(self.years) == 1"""
    out = None
    for g, pol in guards:
        if "len(self.years)" not in ast.unparse(g.test):
            continue
        c = eng.cond(g.test, st)
        if c.kind != "cmp":
            return None
        ln = next((a for a in c.a.atoms() if a.startswith("len(")), None)
        if ln is None:
            return None
        v = c.a.subs({ln: Rat.const(1)})
        if not v.is_const():
            return None
        x = v.const_value()
        sg = "-" if x < 0 else ("+" if x > 0 else "0")
        truth_single = sg in c.s
        out = (pol == truth_single) if out is None else (out and pol == truth_single)
    return out


def _loop_var_of(fn: ast.FunctionDef, stmt: ast.stmt):
    for n in ast.walk(fn):
        if isinstance(n, ast.For) and any(x is stmt for x in ast.walk(n)) and isinstance(n.target, ast.Name):
            inner = n.target.id
    try:
        return inner
    except UnboundLocalError:
        return None


def _series_same_length(prog: Program, res: Result) -> bool:
    """both hourly series are unfiltered comprehensions over the same raw list, hence equally long"""
    q = f"{CLS}.split_heat_and_cool"
    fi = prog.func(q)
    res.analysed(q)
    comps = {}
    for n in ast.walk(fi.node):
        if isinstance(n, ast.Assign) and len(n.targets) == 1 and isinstance(n.targets[0], ast.Name) and isinstance(n.value, ast.ListComp):
            g = n.value.generators
            comps[n.targets[0].id] = (len(g) == 1 and not g[0].ifs, ast.unparse(g[0].iter) if g else None)
    ok = len(comps) >= 2 and all(c[0] for c in comps.values()) and len({c[1] for c in comps.values()}) == 1
    res.ob("R07.4", "rejection and extraction series are unfiltered maps of the same raw list (equal length)", ok, prog.loc(fi, fi.node))
    return ok


# ---------------------------------------------------------------------------
def _check_two_day(prog: Program, res: Result):
    q = f"{CLS}.process_two_day_loads"
    fi = prog.func(q)
    res.analysed(q)
    loops = [n for n in fi.node.body if isinstance(n, ast.For)]
    if len(loops) != 1 or not isinstance(loops[0].target, ast.Name):
        raise AnalysisError(f"{q}: expected one month loop")
    loop = loops[0]
    iv = loop.target.id
    eng = Engine(prog, fi, Hooks())
    st = State()
    prefixed = {}  # local name -> (series attr, prefix length Rat, stmt)
    same_len = _series_same_length(prog, res)
    SERIES = ("self.hourly_rejection_loads", "self.hourly_extraction_loads")
    lists = {}  # local name -> [(series, lo Rat, hi Rat|None)] for locals that are concatenations of slices of the two series

    def segs(e):
        """list expression -> segments, or None"""
        c = attr_chain(e)
        if c in SERIES:
            return [(c, Rat.const(0), None)]
        if isinstance(e, ast.Name) and e.id in lists:
            return list(lists[e.id])
        if isinstance(e, ast.Call) and attr_chain(e.func) == "list" and len(e.args) == 1:
            return segs(e.args[0])
        if isinstance(e, ast.Call) and isinstance(e.func, ast.Attribute) and e.func.attr == "copy" and not e.args:
            return segs(e.func.value)
        if isinstance(e, ast.BinOp) and isinstance(e.op, ast.Add):
            a, b = segs(e.left), segs(e.right)
            return a + b if a is not None and b is not None else None
        if isinstance(e, ast.Subscript) and isinstance(e.slice, ast.Slice) and e.slice.step is None:
            a = segs(e.value)
            if a is None or len(a) != 1:
                return None
            ser, lo0, hi0 = a[0]
            lo = eng.eval(e.slice.lower, st) if e.slice.lower is not None else Rat.const(0)
            hi = eng.eval(e.slice.upper, st) if e.slice.upper is not None else None
            if not isinstance(lo, Rat) or (hi is not None and not isinstance(hi, Rat)) or hi0 is not None:
                return None
            return [(ser, lo0 + lo, (lo0 + hi) if hi is not None else None)]
        return None

    def norm_len(x):
        if isinstance(x, Rat) and same_len:
            return x.subs({a: Rat.atom("N_HOURS") for a in x.atoms() if a in ("len(self.hourly_rejection_loads)", "len(self.hourly_extraction_loads)")})
        return x

    for s in fi.node.body:
        if s is loop:
            break
        if isinstance(s, ast.Assign) and len(s.targets) == 1 and isinstance(s.targets[0], ast.Name):
            sg = segs(s.value)
            if sg is not None:
                name = s.targets[0].id
                lists[name] = sg
                st.env[name] = Rat.atom(name)
                if len(sg) >= 2 and sg[-1][1].is_zero() and sg[-1][2] is None:
                    # <prefix segments> + the whole year of sg[-1][0]
                    series = sg[-1][0]
                    pre = sg[:-1]
                    plen = Rat.const(0)
                    foreign = [p_[0] for p_ in pre if p_[0] != series]
                    tail_ok = True
                    for ser, lo, hi in pre:
                        n_total = sym.call("len", [Rat.atom(ser)])
                        plen = plen + ((hi if hi is not None else n_total) - lo)
                        tail_ok = tail_ok and hi is None
                    plen = norm_len(plen)
                    prefixed[name] = (series, plen, s)
                    okp = not foreign and tail_ok and len(pre) == 1
                    res.ob("R07.4", f"{name}: the hours put in front of {series.split('.')[-1]} are the END of the same series", okp, prog.loc(fi, s))
                    if not okp:
                        res.violation("R07.4", f"prefix-source:{series}", prog.loc(fi, s), q,
                                      f"the year of {series} is prefixed with hours taken from {', '.join(foreign) if foreign else 'the middle of the series'}: "
                                      "a peak on the first day of the year gets a two-day window whose first half is not the previous day of this series")
                continue
            eng._s_Assign(s, st)
    want = {"self.hourly_rejection_loads": "self.monthly_peak_cl_day", "self.hourly_extraction_loads": "self.monthly_peak_hl_day"}
    for series in want:
        if not any(v[0] == series for v in prefixed.values()):
            raise AnalysisError(f"{q}: the year of {series} prefixed with its last day was not found")
    for name, (series, plen, s) in prefixed.items():
        ok = isinstance(plen, Rat) and plen.equals(Rat.const(24))
        res.ob("R07.4", f"{name} = last 24 h of {series.split('.')[-1]} + the whole year (prefix length {plen.key() if isinstance(plen, Rat) else plen})", ok, prog.loc(fi, s))
        if not ok:
            res.violation("R07.4", f"prefix:{series}", prog.loc(fi, s), q,
                          f"the year of {series} is not prefixed with exactly its last 24 hours (prefix length {plen})")
    offs = {k: v for k, v in st.env.items() if isinstance(v, Rat) and v.is_const() and k not in prefixed}
    st.env[iv] = Rat.atom(iv)
    for o in offs:
        st.env[o] = Rat.atom(o)
    windows = []

    class H(Hooks):
        def on_assign(self, key, val, stmt, st_, eng_):
            v = stmt.value if isinstance(stmt, ast.Assign) else None
            if isinstance(v, ast.Subscript) and isinstance(v.slice, ast.Slice) and isinstance(v.value, ast.Name) and v.value.id in prefixed:
                lo = eng_.eval(v.slice.lower, st_) if v.slice.lower is not None else Rat.const(0)
                hi = eng_.eval(v.slice.upper, st_) if v.slice.upper is not None else None
                windows.append((v.value.id, key, lo, hi, stmt))

    eng.hooks = H()
    finals = eng.run_block(loop.body, [st])
    if len(finals) != 1:
        raise AnalysisError(f"{q}: month loop body is not straight-line")
    fin = finals[0]
    I = Rat.atom(iv)
    width = Rat.const(24) * Rat.atom(f"self.days_in_month[{iv}]")
    appended = {}
    for n in ast.walk(loop):
        if isinstance(n, ast.Call) and isinstance(n.func, ast.Attribute) and n.func.attr == "append" and len(n.args) == 1 and isinstance(n.args[0], ast.Name):
            appended[n.args[0].id] = attr_chain(n.func.value)
    want_sink = {"self.hourly_rejection_loads": "self.two_day_hourly_peak_cl_loads", "self.hourly_extraction_loads": "self.two_day_hourly_peak_hl_loads"}
    seen_series = set()
    for name, key, lo, hi, stmt in windows:
        series, plen, _ = prefixed[name]
        seen_series.add(series)
        day = Rat.atom(f"{want[series]}[{iv}]")
        off = next((o for o in offs if isinstance(lo, Rat) and (lo - Rat.atom(o) - (day - Rat.const(1)) * Rat.const(24)).is_zero()), None)
        ok = off is not None and isinstance(hi, Rat) and (hi - lo).equals(Rat.const(48))
        res.ob("R07.4", f"two-day window of {series.split('.')[-1]} = [p + (day-1)*24 : +48] with its own peak day", ok, prog.loc(fi, stmt))
        if not ok:
            res.violation("R07.4", f"window:{series}", prog.loc(fi, stmt), q,
                          f"the two-day window of {series} is [{lo.key() if isinstance(lo, Rat) else lo} : {hi.key() if isinstance(hi, Rat) else hi}], "
                          f"not the 48 hours ending with the peak day ({want[series]}[i])")
            continue
        init_v = offs[off]
        ok = isinstance(plen, Rat) and init_v.equals(plen)
        res.ob("R07.4", f"running offset {off} starts at the prefix length", ok, prog.loc(fi, fi.node))
        if not ok:
            res.violation("R07.4", f"offset-init:{off}", prog.loc(fi, fi.node), q,
                          f"the running offset {off} starts at {init_v.key()} but the series is prefixed with {plen} hours")
        adv = fin.env.get(off)
        ok = isinstance(adv, Rat) and (adv - Rat.atom(off)).equals(width)
        res.ob("R07.4", f"running offset {off} advances by the month's hours", ok, prog.loc(fi, loop))
        if not ok:
            res.violation("R07.4", f"offset-adv:{off}", prog.loc(fi, loop), q, f"the running offset {off} does not advance by 24*days_in_month[i]")
        sink = appended.get(key)
        ok = sink == want_sink[series]
        res.ob("R07.4", f"window of {series.split('.')[-1]} stored in {want_sink[series].split('.')[-1]}", ok, prog.loc(fi, stmt))
        if not ok:
            res.violation("R07.4", f"sink:{series}", prog.loc(fi, stmt), q, f"the two-day window of {series} is stored in {sink}")
    for series in want:
        if series not in seen_series:
            raise AnalysisError(f"{q}: no two-day window taken from {series}")


# ---------------------------------------------------------------------------
def _check_peak_provenance(prog: Program, res: Result):
    q = f"{CLS}.split_loads_by_month"
    fi = prog.func(q)
    res.analysed(q)
    loops = [n for n in fi.node.body if isinstance(n, ast.For)]
    if len(loops) != 1 or not isinstance(loops[0].target, ast.Name):
        raise AnalysisError(f"{q}: expected one month loop")
    loop = loops[0]
    iv = loop.target.id
    win = {}  # local -> series
    assigns = {}
    for s in loop.body:
        if isinstance(s, ast.Assign) and len(s.targets) == 1:
            t = s.targets[0]
            if isinstance(t, ast.Name) and isinstance(s.value, ast.Subscript) and isinstance(s.value.slice, ast.Slice):
                c = attr_chain(s.value.value)
                if c:
                    win[t.id] = c
            if isinstance(t, ast.Subscript) and attr_chain(t.value) and ast.unparse(t.slice) == iv:
                assigns[attr_chain(t.value)] = s
    spec = {
        "cl": "self.hourly_rejection_loads",
        "hl": "self.hourly_extraction_loads",
    }
    # single writer: the month's peak and peak day are the ones computed here from the month's own window - nothing else in the
    # class overwrites an element (appending month m's own values for month m + 12 is the replication the horizon needs)
    split_name = fi.name
    for q2, f2 in sorted(prog.funcs.items()):
        if f2.module != fi.module or f2.cls != fi.cls or f2 is fi or f2.name == "__init__":
            continue
        for n2 in ast.walk(f2.node):
            tgts = n2.targets if isinstance(n2, ast.Assign) else ([n2.target] if isinstance(n2, ast.AugAssign) else [])
            for t2 in tgts:
                base = attr_chain(t2.value) if isinstance(t2, ast.Subscript) else attr_chain(t2)
                if base in ("self.monthly_peak_cl", "self.monthly_peak_hl", "self.monthly_peak_cl_day", "self.monthly_peak_hl_day"):
                    res.ob("R07.6", f"{f2.name}: does not overwrite {base}", False, prog.loc(f2, n2))
                    res.violation("R07.6", f"overwritten|{f2.name}|{base}", prog.loc(f2, n2), q2,
                                  f"'{norm_stmt(n2)[:90]}' overwrites {base.split('.')[-1]}, which {split_name} computed from the month's own hours: the pulse magnitude (and the replicated months, the monthly "
                                  "summary) then carry a value that is not the month's hourly peak")
    for tag, series in spec.items():
        pk, dy = f"self.monthly_peak_{tag}", f"self.monthly_peak_{tag}_day"
        sp, sd = assigns.get(pk), assigns.get(dy)
        if sp is None or sd is None:
            raise AnalysisError(f"{q}: assignment of {pk}[{iv}] or {dy}[{iv}] not found")
        v = inline_single_defs(fi.node, sp.value, keep=set(win))
        okp = (isinstance(v, ast.Call) and attr_chain(v.func) == "max" and len(v.args) == 1 and isinstance(v.args[0], ast.Name)
               and win.get(v.args[0].id) == series)
        res.ob("R07.6", f"{pk.split('.')[-1]}[i] = max(month window of {series.split('.')[-1]})", okp, prog.loc(fi, sp))
        if not okp:
            res.violation("R07.6", f"peak:{tag}", prog.loc(fi, sp), q, f"{pk}[i] is not the maximum of the month's window of {series}: {norm_stmt(sp)}")
        # day = floor(window.index(peak[i]) / 24)
        d = inline_single_defs(fi.node, sd.value, keep=set(win))
        okd = False
        if isinstance(d, ast.Call) and attr_chain(d.func) in ("floor", "math.floor", "int") and len(d.args) == 1:
            a = d.args[0]
            if isinstance(a, ast.BinOp) and isinstance(a.op, (ast.Div, ast.FloorDiv)):
                eng = Engine(prog, fi, Hooks())
                den = eng.eval(a.right, State())
                num = a.left
                if (isinstance(den, Rat) and den.equals(Rat.const(24)) and isinstance(num, ast.Call) and isinstance(num.func, ast.Attribute)
                        and num.func.attr == "index" and isinstance(num.func.value, ast.Name) and win.get(num.func.value.id) == series
                        and len(num.args) == 1 and ast.unparse(num.args[0]) == f"{pk}[{iv}]"):
                    okd = True
        elif isinstance(d, ast.BinOp) and isinstance(d.op, ast.FloorDiv):
            eng = Engine(prog, fi, Hooks())
            den = eng.eval(d.right, State())
            num = d.left
            if (isinstance(den, Rat) and den.equals(Rat.const(24)) and isinstance(num, ast.Call) and isinstance(num.func, ast.Attribute)
                    and num.func.attr == "index" and isinstance(num.func.value, ast.Name) and win.get(num.func.value.id) == series
                    and len(num.args) == 1 and ast.unparse(num.args[0]) == f"{pk}[{iv}]"):
                okd = True
        # the monthly average (what the duration's step load is measured against) = the month's total / hours of its window
        sa = assigns.get(f"self.monthly_avg_{tag}")
        tot = f"self.monthly_{tag}"
        oka = False
        if sa is not None:
            va = inline_single_defs(fi.node, sa.value, keep=set(win))
            if isinstance(va, ast.BinOp) and isinstance(va.op, ast.Div) and ast.unparse(va.left) == f"{tot}[{iv}]" and isinstance(va.right, ast.Call) \
                    and attr_chain(va.right.func) == "len" and len(va.right.args) == 1 and isinstance(va.right.args[0], ast.Name) and win.get(va.right.args[0].id) == series:
                oka = True
        res.ob("R07.6", f"monthly_avg_{tag}[i] = monthly_{tag}[i] / len(month window of {series.split('.')[-1]})", oka, prog.loc(fi, sa) if sa is not None else prog.loc(fi, loop))
        if not oka:
            res.violation("R07.6", f"avg:{tag}", prog.loc(fi, sa) if sa is not None else prog.loc(fi, loop), q,
                          f"monthly_avg_{tag}[i] is not the month's total divided by the hours of its own window: {norm_stmt(sa) if sa is not None else 'not assigned'} (the peak duration is defined against this average)")
        res.ob("R07.6", f"{dy.split('.')[-1]}[i] = floor(window.index(peak) / 24) on the same window", okd, prog.loc(fi, sd))
        if not okd:
            res.violation("R07.6", f"day:{tag}", prog.loc(fi, sd), q,
                          f"{dy}[i] is not the day of the month's own peak in the window of {series}: {norm_stmt(sd)}")


_IPF_OLD = '            ipf = [False] * (self.end_month + 1)\n            for i in range(self.start_month, self.end_month + 1):\n                # set flag that determines if peak load will be included\n                if i < self.start_month + self.peak_retain_start:\n                    ipf[i] = True\n                if i > self.end_month - self.peak_retain_end:\n                    ipf[i] = True\n'
_PRE_OLD = '        hourly_rejection_loads = self.hourly_rejection_loads[hours_in_year - HRS_IN_DAY :] + self.hourly_rejection_loads\n        hourly_extraction_loads = (\n            self.hourly_extraction_loads[hours_in_year - HRS_IN_DAY :] + self.hourly_extraction_loads\n        )\n'

VARIANTS = [
    Variant("the previous day's larger load is written back into the month's peak (seeded C07_g)", "break",
            [(GL, "            current_month_peak_cl = self.monthly_peak_cl[i] if abs(load_diff) < tol else max(current_two_day_cl_load)\n",
              "            if abs(load_diff) >= tol:\n                self.monthly_peak_cl[i] = max(current_two_day_cl_load)\n            current_month_peak_cl = self.monthly_peak_cl[i]\n")], "R07.6"),
    Variant("cooling pulse guarded by peak >= 0 (zero pulse in a month without rejection)", "break",
            [(GL, "                    # monthly average conditions before cooling peak\n                    if self.monthly_peak_cl[i] > 0 and ipf[i]:\n                        # last_avg_hour = first_hour_cooling_peak - 1 JDS corrected 20200604\n                        last_avg_hour = cooling_peak_start",
              "                    # monthly average conditions before cooling peak\n                    if self.monthly_peak_cl[i] >= 0 and ipf[i]:\n                        # last_avg_hour = first_hour_cooling_peak - 1 JDS corrected 20200604\n                        last_avg_hour = cooling_peak_start")], "R07.1"),
    Variant("flags as a comprehension, last window aligned to whole years (seeded C07_b)", "break",
            [(GL, _IPF_OLD, """            first_year_end = self.start_month + self.peak_retain_start - 1
            last_year_start = (self.end_month - 1) // self.peak_retain_end * self.peak_retain_end + 1
            ipf = [i <= first_year_end or i >= last_year_start for i in range(self.end_month + 1)]
""")], "R07.2"),
    Variant("flags as a comprehension with the same predicate", "benign",
            [(GL, _IPF_OLD, """            first_year_end = self.start_month + self.peak_retain_start - 1
            last_year_start = self.end_month - self.peak_retain_end + 1
            ipf = [m <= first_year_end or m >= last_year_start for m in range(self.end_month + 1)]
""")]),
    Variant("year-wrap day factored out but taken from the rejection series for both (seeded C07)", "break",
            [(GL, _PRE_OLD, """        last_day = self.hourly_rejection_loads[hours_in_year - HRS_IN_DAY :]
        hourly_rejection_loads = last_day + self.hourly_rejection_loads
        hourly_extraction_loads = last_day + self.hourly_extraction_loads
""")], "R07.4"),
    Variant("year-wrap days factored out, each from its own series", "benign",
            [(GL, _PRE_OLD, """        last_day_rej = self.hourly_rejection_loads[hours_in_year - HRS_IN_DAY :]
        last_day_ext = self.hourly_extraction_loads[hours_in_year - HRS_IN_DAY :]
        hourly_rejection_loads = last_day_rej + self.hourly_rejection_loads
        hourly_extraction_loads = last_day_ext + self.hourly_extraction_loads
""")]),
    Variant("heating pulse with positive sign (cooling-first branch)", "break",
            [(GL, """                    # self.load = np.append(self.load, self.monthly_peak_hl[i]) JDS corrected 20200604
                    self.load = np.append(self.load, -self.monthly_peak_hl[i])
                    self.hour = np.append(self.hour, last_hour_heating_peak)""",
              """                    self.load = np.append(self.load, self.monthly_peak_hl[i])
                    self.hour = np.append(self.hour, last_hour_heating_peak)""")], "R07.1"),
    Variant("retention window one month too long at the start", "break",
            [(GL, "if i < self.start_month + self.peak_retain_start:", "if i <= self.start_month + self.peak_retain_start:")], "R07.2"),
    Variant("peaks retained for 6 months only", "break",
            [(GL, "            self.peak_retain_start = 12  # use peak loads for first 12 months", "            self.peak_retain_start = 6  # use peak loads for first 12 months")], "R07.2"),
    Variant("pulses placed at midnight instead of noon (heating)", "break",
            [(GL, """                    + (self.monthly_peak_hl_day[i]) * HRS_IN_DAY
                    + 12""", """                    + (self.monthly_peak_hl_day[i]) * HRS_IN_DAY
                    + 0""")], "R07.3"),
    Variant("redundant 'and ipf[i]' dropped in a branch only reachable in retention months", "benign",
            [(GL, """                if self.monthly_peak_cl[i] > 0 and ipf[i]:
                    # last_avg_hour = first_hour_cooling_peak - 1 JDS corrected 20200604
                    last_avg_hour = first_hour_cooling_peak
                    self.load = np.append(self.load, month_rate)""", """                if self.monthly_peak_cl[i] > 0:
                    # last_avg_hour = first_hour_cooling_peak - 1 JDS corrected 20200604
                    last_avg_hour = first_hour_cooling_peak
                    self.load = np.append(self.load, month_rate)""")]),
    Variant("same-day branch emits pulses in months outside the retention window", "break",
            [(GL, """                if ipf[i]:
                    # The cooling peak ends and the heating peak starts at noon of the common peak day.""", """                if ipf[i] or self.monthly_peak_cl[i] > 0:
                    # The cooling peak ends and the heating peak starts at noon of the common peak day."""),
             (GL, """                    # monthly average conditions before cooling peak
                    if self.monthly_peak_cl[i] > 0 and ipf[i]:
                        # last_avg_hour = first_hour_cooling_peak - 1 JDS corrected 20200604
                        last_avg_hour = cooling_peak_start""", """                    # monthly average conditions before cooling peak
                    if self.monthly_peak_cl[i] > 0:
                        # last_avg_hour = first_hour_cooling_peak - 1 JDS corrected 20200604
                        last_avg_hour = cooling_peak_start""")], "R07.1"),
    Variant("two-day window starts on the peak day", "break",
            [(GL, "monthly_peak_cl_hour_start = hours_in_previous_months + (monthly_peak_cl_day - 1) * HRS_IN_DAY",
              "monthly_peak_cl_hour_start = hours_in_previous_months + monthly_peak_cl_day * HRS_IN_DAY")], "R07.4"),
    Variant("heating two-day window uses the cooling peak day", "break",
            [(GL, "            monthly_peak_hl_day = self.monthly_peak_hl_day[i]\n", "            monthly_peak_hl_day = self.monthly_peak_cl_day[i]\n")], "R07.4"),
    Variant("heating peak day looked up in the rejection window", "break",
            [(GL, "self.monthly_peak_hl_day[i] = floor(month_extraction_loads.index(self.monthly_peak_hl[i]) / HRS_IN_DAY)",
              "self.monthly_peak_hl_day[i] = floor(month_rejection_loads.index(self.monthly_peak_hl[i]) / HRS_IN_DAY)")], "R07.6"),
    Variant("cooling pulse scaled by 0.9", "break",
            [(GL, """                    self.load = np.append(self.load, self.monthly_peak_cl[i])
                    self.hour = np.append(self.hour, last_hour_cooling_peak)

                    if last_avg_hour - peak_last_avg_hour < 0.0:
                        warnings.warn(warn_msg_neg_timestep)
                    peak_last_avg_hour = last_avg_hour
                # rest of month""", """                    self.load = np.append(self.load, 0.9 * self.monthly_peak_cl[i])
                    self.hour = np.append(self.hour, last_hour_cooling_peak)

                    if last_avg_hour - peak_last_avg_hour < 0.0:
                        warnings.warn(warn_msg_neg_timestep)
                    peak_last_avg_hour = last_avg_hour
                # rest of month""")], "R07.1"),
    Variant("heating duration simulated from the cooling two-day profile", "break",
            [(GL, "            current_two_day_hl_load = [0.0] + self.two_day_hourly_peak_hl_loads[i]", "            current_two_day_hl_load = [0.0] + self.two_day_hourly_peak_cl_loads[i]")], "R07.7"),
    Variant("duration read at the maximum of the PEAK response", "break",
            [(GL, "        delta_t_fluid_nom_max = max(delta_t_fluid_nom)", "        delta_t_fluid_nom_max = max(delta_t_fluid_peak)")], "R07.8"),
    Variant("inverse interpolation with swapped axes", "break",
            [(GL, "            f = interp1d(delta_t_fluid_peak, hour_time, fill_value=\"extrapolate\")", "            f = interp1d(hour_time, delta_t_fluid_peak, fill_value=\"extrapolate\")")], "R07.8"),
    Variant("heating duration stored in the cooling array", "break",
            [(GL, "            # Set the monthly cooling load duration\n            self.monthly_peak_hl_duration[i] = peak_duration", "            # Set the monthly cooling load duration\n            self.monthly_peak_cl_duration[i] = peak_duration")], "R07.7"),
    Variant("HRS_IN_DAY written as literal 24 in the pulse start", "benign",
            [(GL, """                    + (self.monthly_peak_cl_day[i]) * HRS_IN_DAY
                    + 12
                    - self.monthly_peak_cl_duration[i] / 2""", """                    + (self.monthly_peak_cl_day[i]) * 24
                    + 12.0
                    - 0.5 * self.monthly_peak_cl_duration[i]""")]),
    Variant("two-day window bounds through a temporary", "benign",
            [(GL, """            two_day_hourly_peak_cl_load = hourly_rejection_loads[
                monthly_peak_cl_hour_start : monthly_peak_cl_hour_start + 2 * HRS_IN_DAY
            ]""", """            cl_stop = monthly_peak_cl_hour_start + 48
            two_day_hourly_peak_cl_load = hourly_rejection_loads[monthly_peak_cl_hour_start:cl_stop]""")]),
]
