from ghedesigner.manager import GHEManager
from ghedesigner.search_routines import RowWiseModifiedBisectionSearch
g=GHEManager()
g.set_single_u_tube_pipe(inner_diameter=0.03404, outer_diameter=0.04216, shank_spacing=0.01856, roughness=1.0e-6, conductivity=0.4, rho_cp=1542000.0)
g.set_soil(conductivity=2.0, rho_cp=2343493.0, undisturbed_temp=18.3); g.set_grout(conductivity=1.0, rho_cp=3901000.0); g.set_fluid()
g.set_borehole(height=96.0, buried_depth=2.0, diameter=0.140)
g.set_simulation_parameters(num_months=240, max_eft=35, min_eft=5, max_height=135, min_height=60)
g.set_ground_loads_from_hourly_list([1.0]*8760)
g.set_geometry_constraints_rowwise(perimeter_spacing_ratio=None, max_spacing=20, min_spacing=10, spacing_step=0.1, max_rotation=0, min_rotation=-90, rotate_step=5, property_boundary=[[1,1],[103,7],[97,83],[5,71]], no_go_boundaries=[])
g.set_design(flow_rate=0.5, flow_type_str="borehole")
d=g._design
s=RowWiseModifiedBisectionSearch(d.V_flow,d.borehole,d.bhe_type,d.fluid,d.pipe,d.grout,d.soil,d.sim_params,d.hourly_extraction_ground_loads,d.geometric_constraints,method=d.method,flow_type=d.flow_type,search=False)
N=[None]
def fake(coords,h,field_specifier="N/A"):
    n=len(coords)
    if N[0] is None or n>N[0]: 
        if field_specifier!="1X1": N[0]=max(N[0] or 0,n)
    # feasible only for the full smallest field or larger
    return -1.0 if n>=THR[0] else 1.0
THR=[0]
# first find size of lower field
from ghedesigner.rowwise import field_optimization_fr, gen_shape
gc=d.geometric_constraints
pb,ng=gen_shape(gc.property_boundary, gc.no_go_boundaries)
lower,_=field_optimization_fr(gc.max_spacing, gc.rotate_step, pb, ng_zones=ng, rotate_start=gc.min_rotation, rotate_stop=gc.max_rotation)
THR[0]=len(lower); print("lower field size", len(lower))
s.calculate_excess=fake
try:
    print(s.search()[1])
except Exception as e:
    print("raised", type(e).__name__, e)
