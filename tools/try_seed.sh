#!/bin/sh
# usage: tools/try_seed.sh <patch.diff> [props...]
#   copies /repo's working tree (tracked files, as they are now) to a scratch directory, applies the seeded change
#   THERE, runs the quick checks against it (--root) and removes the copy.  /repo itself is not touched.
# prints one line per check:  <prop> rc=<0|1|2> [first VIOLATION / ANALYSIS-ERROR line]
P="$1"; shift
PROPS="${*:-C01 C02 C03 C04 C05 C06 C07 C08 C09 C10 C11 C12 C13 C15 C17 C18 C19 C20}"
cd /verif || exit 9
S=$(mktemp -d /tmp/ts_XXXXXX)
(cd /repo && git ls-files -z | rsync -a --from0 --files-from=- . "$S"/)
(cd "$S" && git init -q . 2>/dev/null && git apply "$P") || { echo "patch does not apply"; rm -rf "$S"; exit 9; }
for p in $PROPS; do
  out=$(./check "$p" --tier quick --no-evidence --root "$S" 2>&1 | grep -v "WARNING conda")
  rc=$(printf '%s\n' "$out" | grep -q "^VIOLATION" && echo 1 || (printf '%s\n' "$out" | grep -q "^ANALYSIS-ERROR" && echo 2 || echo 0))
  first=$(printf '%s\n' "$out" | grep -E "VIOLATED at|^ANALYSIS-ERROR" | head -2 | cut -c1-230 | tr '\n' ' ')
  echo "$p rc=$rc $first"
done
rm -rf "$S"
