import time
from ghedesigner.manager import GHEManager
from ghedesigner.enums import TimestepType
t0=time.time()
ghe = GHEManager()
ghe.set_single_u_tube_pipe(inner_diameter=0.03404, outer_diameter=0.04216, shank_spacing=0.01856, roughness=1.0e-6, conductivity=0.4, rho_cp=1542000.0)
ghe.set_soil(conductivity=3.493, rho_cp=2.5797e06, undisturbed_temp=10.0)
ghe.set_grout(conductivity=1.0, rho_cp=3901000.0)
ghe.set_fluid()
ghe.set_borehole(height=152.4, buried_depth=2.0, diameter=0.152)
ghe.set_simulation_parameters(num_months=240, max_eft=35, min_eft=5, max_height=213, min_height=60, continue_if_design_unmet=True)
ghe.set_ground_loads_from_hourly_list([1.0e2] * 8760)
ghe.set_geometry_constraints_near_square(b=6.096, length=20)
ghe.set_design(flow_rate=1.0, flow_type_str="borehole")
ghe.find_design()
g=ghe._search.ghe
print("H", g.bhe.b.H, "nbh", g.nbh, "reported max/min", max(g.hp_eft), min(g.hp_eft))
mx,mn=g.simulate(method=TimestepType.HYBRID)
print("resim at H", g.bhe.b.H, mx, mn)
# C13: hybrid then hourly
try:
    mx2,mn2=g.simulate(method=TimestepType.HOURLY)
    print("hourly after hybrid", mx2, mn2, len(g.hp_eft))
except Exception as e:
    print("hourly after hybrid raised", type(e).__name__, e)
print("t", time.time()-t0)
