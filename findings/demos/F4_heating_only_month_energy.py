import warnings, math, sys
import numpy as np
from ghedesigner.borehole import GHEBorehole
from ghedesigner.borehole_heat_exchangers import SingleUTube
from ghedesigner.media import GHEFluid, Grout, Pipe, Soil
from ghedesigner.radial_numerical_borehole import RadialNumericalBH
from ghedesigner.ground_loads import HybridLoad
from ghedesigner.simulation import SimulationParameters

def mk(loads, months=24):
    fluid=GHEFluid("water",0.0)
    pipe=Pipe(Pipe.place_pipes(0.01856,0.02108,1),0.01702,0.02108,0.01856,1e-6,0.4,1542000.0)
    soil=Soil(2.0,2343493.0,18.3); grout=Grout(1.0,3901000.0)
    b=GHEBorehole(100.0,2.0,0.07,0.0,0.0)
    bhe=SingleUTube(0.5,fluid,b,pipe,grout,soil)
    rn=RadialNumericalBH(bhe); rn.calc_sts_g_functions(bhe)
    sp=SimulationParameters(1,months,35,5,135,60)
    return HybridLoad(loads,bhe,rn,sp)

def month_energy(h):
    load=h.load; hour=h.hour
    # month ends
    ends=np.cumsum([0]+[d*24 for d in [31,28,31,30,31,30,31,31,30,31,30,31]])
    res=[]
    for m in range(12):
        e=0.0
        for k in range(2,len(hour)):
            if ends[m] < hour[k] <= ends[m+1] or (hour[k-1] < ends[m+1] and hour[k]>ends[m]):
                lo=max(hour[k-1],ends[m]); hi=min(hour[k],ends[m+1])
                if hi>lo: e+=load[k]*(hi-lo)
        res.append(e)
    return res

if __name__=="__main__":
    rng=np.random.default_rng(1)
    # heating-only profile (extraction positive in W), peak in Feb on day 1
    loads=[5000.0+2000*math.sin(i/24*2*math.pi) for i in range(8760)]
    loads[31*24+5]=20000.0   # Feb 1st 05:00 peak
    h=mk(loads)
    rej=np.array(h.hourly_rejection_loads); ext=np.array(h.hourly_extraction_loads)
    ends=np.cumsum([0]+[d*24 for d in [31,28,31,30,31,30,31,31,30,31,30,31]])
    want=[(rej[ends[m]:ends[m+1]].sum()-ext[ends[m]:ends[m+1]].sum()) for m in range(12)]
    got=month_energy(h)
    for m in range(12):
        print(m+1, round(want[m],3), round(got[m],3), round(got[m]-want[m],3), h.monthly_peak_hl_day[m+1], h.monthly_peak_cl_day[m+1])
    print(h.hour[:12]); print(h.load[:12])
