"""store a confirmed seeded change under /verif/seeded/<tag>/ : patch.diff, demo.py, notes.md (the sub-agent's own description) and
meta.json (property, what I ran to confirm it, which checks report it).   usage: tools/store_seed.py <tag> [<tag> ...]"""
import json
import os
import re
import shutil
import subprocess
import sys

SRC, CONF, DST = "/tmp/seed_out", "/tmp/seed_confirm", "/verif/seeded"
PROPS = "C01 C02 C03 C04 C05 C06 C07 C08 C09 C10 C11 C12 C13 C15 C17 C18 C19 C20".split()


def checks_against(patch: str):
    out = subprocess.run(["/verif/tools/try_seed.sh", patch] + PROPS, capture_output=True, text=True).stdout
    res = {}
    for line in out.splitlines():
        m = re.match(r"^(C\d\d) rc=(\d)\s*(.*)$", line)
        if m:
            rules = sorted(set(re.findall(r"\b([RK]\d+(?:\.\d+)?) VIOLATED", m.group(3))))
            res[m.group(1)] = {"rc": int(m.group(2)), "rules": rules, "first": m.group(3)[:300]}
    return res


for tag in sys.argv[1:]:
    s, c = f"{SRC}/{tag}", f"{CONF}/{tag}.json"
    conf = json.load(open(c))
    ok = conf.get("demo_rc_original") == 0 and conf.get("demo_rc_mutated") not in (0, None) and conf.get("baseline_passing_with_patch") == conf.get("baseline_tests")
    if not ok:
        print(tag, "NOT CONFIRMED", conf)
        continue
    d = f"{DST}/{tag}"
    os.makedirs(d, exist_ok=True)
    for f in ("patch.diff", "demo.py", "notes.md"):
        if os.path.exists(f"{s}/{f}"):
            shutil.copy(f"{s}/{f}", f"{d}/{f}")
    notes = open(f"{s}/notes.md").read() if os.path.exists(f"{s}/notes.md") else ""
    needs = ""
    m = re.search(r"(?is)(needed to manifest|needs?|what it takes to manifest|trigger|when it shows)[^\n:]*:\**\s*(.+?)(\n\s*\n|\n- \*\*|\n\*\*|\Z)", notes)
    if m:
        needs = " ".join(m.group(2).split())[:600]
    chk = checks_against(f"{d}/patch.diff")
    flagged = {p: v for p, v in chk.items() if v["rc"] != 0}
    head = subprocess.run(["git", "-C", "/repo", "rev-parse", "--short", "HEAD"], capture_output=True, text=True).stdout.strip()
    meta = {
        "id": tag,
        "breaks_property": tag.split("_")[0],
        "origin": "independent sub-agent given only the property text and a scratch worktree",
        "needs_to_manifest": needs or "see notes.md",
        "confirmed_by_me": {
            "repo_commit": head,
            "how": "tools/confirm_seed.sh: scratch worktree of /repo HEAD under /tmp; demo.py on the original tree, patch applied with git apply, demo.py again, then the full pinned suite (pytest -n, single-threaded BLAS) compared with /root/.vp/BASELINE.json",
            "demo_exit_original": conf["demo_rc_original"], "demo_exit_with_patch": conf["demo_rc_mutated"],
            "baseline_tests": conf["baseline_tests"], "baseline_passing_with_patch": conf["baseline_passing_with_patch"],
        },
        "checks": {p: {"exit": v["rc"], "rules": v["rules"], "report": v["first"]} for p, v in sorted(flagged.items())},
        "checks_silent": sorted(p for p, v in chk.items() if v["rc"] == 0),
    }
    json.dump(meta, open(f"{d}/meta.json", "w"), indent=1)
    print(tag, "stored; flagged by", {p: (v["rc"], v["rules"]) for p, v in flagged.items()})
