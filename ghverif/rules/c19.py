"""C19 - output tables label time correctly and echo inputs and the selected field (structural part).

Not decided: exactness of the (month, day, hour) labels for all 8760 hours and continuity / monotonicity of the
fractional months (that needs evaluation over the hours - a test, not a static argument).  Decided:
  R19.1  calendar tables: ghe_time_convert and hours_to_month use the non-leap month lengths (shared with C08);
         the closed forms that follow the month search are day = floor(h_l / 24) + 1, hour = h_l mod 24 + 1,
         h_l = hours - hours before the month found, and fraction = h_l / hours of that month added to
         12 * years + months before
  R19.2  loads table: one row per element of the complete hourly_extraction_ground_loads, in order, as
         [month, day, hour-of-day] from ghe_time_convert(index), the index, the load - under a header of
         the same width
  R19.3  bore-field table: one [x, y] row per element of gFunction.bore_locations, in order, x before y
  R19.4  g-function table: the rows come from grab_g_function(B_spacing / H) - the producer and argument the
         simulation uses - as (ln(t/ts), g, g at the borehole wall) of the two interpolants
  R19.5  custody of the listed coordinates: the container the bore-field table reads (gFunction.bore_locations of the
         design's GHE) is, on every way it can be set, the unchanged coordinate container given to the function that
         builds the design object: the only store of .bore_locations is the g-function class' constructor storing its
         parameter; every construction of that class, every call of a function that hands its parameter on to it,
         and every store of .gFunction passes the container on without computing, filtering, slicing, reordering
         or mutating it (list() / copy / identity comprehension are accepted), or re-reads it from the object's own
         gFunction.bore_locations (the rebuild in compute_g_functions).  Which field a search hands in is C05 / C01.
  R19.6  custody of the listed loads: walking back from the attribute the loads table reads (the GHE's
         hourly_extraction_ground_loads) through every store, constructor parameter and construction site in the
         package - GHE <- search classes <- design classes <- manager - every hand-over passes the list on
         unchanged, and the walk ends only at the manager's input (the setter's parameter, the input file's
         'ground_loads' entry) or a None initialisation: nothing on the way scales, clips, filters, reorders,
         truncates or mutates the loads
  R19.7  the files are the tables of the CURRENT design: write_all_output_files writes, under each of the three file
         names, the rows attribute that the constructor fills from the matching row builder applied to its own
         design parameter; the manager builds the OutputManager from its current search (self._search) and
         prepare_results does not hand out an earlier OutputManager (early return on self.results: C13's R13.9
         machinery, keyed or not)
"""
from __future__ import annotations

import ast
import calendar

from .. import sym
from ..custody import Walk, call_sites, root_of
from ..model import MUTATORS, AnalysisError, inline_single_defs, Program, attr_chain, bind_args, norm_stmt, walk_no_nested
from ..paths import Const, Engine, Hooks, Opaque, Seq, State, vkey
from ..report import Result
from ..selftest import Variant
from ..sym import Rat

PROP = "C19"
TITLE = "Output tables: calendar tables, echo of loads and bore field, g-function table source"
EXPLANATION = (
    "Literal tables against the stdlib calendar; shape of the three row builders (what is iterated, whether it is "
    "filtered / sliced / reordered, what each row contains); normal forms of the closed-form parts of the two time "
    "conversions; producer and argument of the g-function table against those of GHE.simulate."
)
ASSUMPTIONS = ["csv.writer writes rows in list order"]

OUT = OUTM = "ghedesigner.output"
OM = f"{OUT}.OutputManager"
NONLEAP = [calendar.monthrange(2019, m)[1] for m in range(1, 13)]


def _list_ints(node):
    if isinstance(node, (ast.List, ast.Tuple)) and all(isinstance(e, ast.Constant) and isinstance(e.value, int) for e in node.elts):
        return [e.value for e in node.elts]
    return None


def _row_builder(fi):
    """-> (iterated expr, loop target, row expr, header list) for 'rows = [[header]]; for t in X: rows.append(row)' or a comprehension"""
    fn = fi.node
    header = None
    arr = None
    for s in fn.body:
        if isinstance(s, ast.Assign) and isinstance(s.targets[0], ast.Name) and isinstance(s.value, ast.List) and len(s.value.elts) == 1 and isinstance(s.value.elts[0], ast.List):
            arr, header = s.targets[0].id, s.value.elts[0]
    if header is None:
        # [HEADER, *rows]  |  [HEADER] + rows   as the returned value (HEADER a list literal or a local bound to one)
        def as_list(e):
            if isinstance(e, ast.Name):
                d_ = [s_.value for s_ in ast.walk(fn) if isinstance(s_, ast.Assign) and len(s_.targets) == 1 and isinstance(s_.targets[0], ast.Name) and s_.targets[0].id == e.id]
                e = d_[0] if len(d_) == 1 else e
            return e if isinstance(e, ast.List) else None

        for r_ in [x for x in fn.body if isinstance(x, ast.Return) and x.value is not None]:
            v = r_.value
            if isinstance(v, ast.Name):
                v = as_list(v) or v
            if isinstance(v, ast.List) and len(v.elts) >= 1 and not isinstance(v.elts[0], ast.Starred):
                header = as_list(v.elts[0])
            elif isinstance(v, ast.BinOp) and isinstance(v.op, ast.Add) and isinstance(v.left, ast.List) and len(v.left.elts) == 1:
                header = as_list(v.left.elts[0])
    loops = [n for n in fn.body if isinstance(n, ast.For)]
    if arr and len(loops) == 1:
        lp = loops[0]
        apps = [c for c in ast.walk(lp) if isinstance(c, ast.Call) and isinstance(c.func, ast.Attribute) and c.func.attr == "append" and attr_chain(c.func.value) == arr]
        conds = [n for n in ast.walk(lp) if isinstance(n, (ast.If, ast.Continue, ast.Break))]
        if len(apps) == 1:
            return lp.iter, lp.target, apps[0].args[0], header, lp, bool(conds)
    # comprehension form:  return [header] + [[...] for t in X]
    for n in ast.walk(fn):
        if isinstance(n, ast.ListComp) and len(n.generators) == 1:
            g = n.generators[0]
            return g.iter, g.target, n.elt, header, n, bool(g.ifs)
    raise AnalysisError(f"{fi.qualname}: row builder shape not understood")


def check(prog: Program, tier: str) -> Result:
    res = Result(PROP)
    # ---------------- R19.1 tables and closed forms
    for name in ("hours_to_month", "ghe_time_convert"):
        q = f"{OM}.{name}"
        fi = prog.func(q)
        res.analysed(q)
        tabs = [(n, _list_ints(n.value)) for n in ast.walk(fi.node) if isinstance(n, ast.Assign) and _list_ints(n.value) is not None and len(_list_ints(n.value)) >= 12]
        if not tabs:
            raise AnalysisError(f"{q}: month table not found")
        for n, li in tabs:
            ok = li == NONLEAP
            res.ob("R19.1", f"{name}: month lengths = non-leap calendar", ok, prog.loc(fi, n))
            if not ok:
                res.violation("R19.1", f"{name}|table|{li}", prog.loc(fi, n), q, f"month lengths {li} differ from the non-leap calendar {NONLEAP}")
        hy = [n for n in ast.walk(fi.node) if isinstance(n, ast.Assign) and isinstance(n.targets[0], ast.Name) and isinstance(n.value, ast.ListComp)
              and len(n.value.generators) == 1 and ast.unparse(n.value.generators[0].iter) == tabs[0][0].targets[0].id]
        ok = len(hy) == 1
        if ok:
            e = Engine(prog, fi, Hooks())
            s = State()
            s.env[hy[0].value.generators[0].target.id] = Rat.atom("D")
            v = e.eval(hy[0].value.elt, s)
            ok = isinstance(v, Rat) and v.equals(Rat.const(24) * Rat.atom("D"))
        res.ob("R19.1", f"{name}: hours of a month = 24 * its days", bool(ok), prog.loc(fi, hy[0]) if hy else prog.loc(fi, fi.node))
        if not ok:
            res.violation("R19.1", f"{name}|hours-per-month", prog.loc(fi, hy[0]) if hy else prog.loc(fi, fi.node), q, "the hours per month are not 24 * days of the month")
    # closed forms.  Roles are read off the code: the month table DIY (literal), its hours list HIY (comprehension over DIY),
    # the search loop over DIY with its break-branch (MON = index) and, for ghe_time_convert, the running sum of the else-branch
    def helper_roles(fi_, diy, hiy):
        """the month search extracted into a helper:  MON, ELAPSED = <helper>(HIY, X)  with the helper returning
        (index, hours accumulated before that month) from inside its loop"""
        from ..model import as_increment, bind_args
        from ..paths import negate

        fn_ = fi_.node
        site = None
        for k_, s_ in enumerate(fn_.body):
            if isinstance(s_, ast.Assign) and len(s_.targets) == 1 and isinstance(s_.targets[0], ast.Tuple) and len(s_.targets[0].elts) == 2 \
                    and all(isinstance(e_, ast.Name) for e_ in s_.targets[0].elts) and isinstance(s_.value, ast.Call):
                nm = (attr_chain(s_.value.func) or "").split(".")[-1]
                cands = [f for q_, f in prog.funcs.items() if f.name == nm and f.module == fi_.module]
                if len(cands) == 1:
                    site = (k_, s_, cands[0])
        if site is None:
            raise AnalysisError(f"{fi_.qualname}: month table / hours list / search loop not found")
        k_, call_stmt, h = site
        b = bind_args(h, call_stmt.value)
        hps = [p_ for p_ in h.params() if p_ not in ("self", "cls")]
        if len(hps) != 2 or set(b) != set(hps) or ast.unparse(b[hps[0]]) != hiy:
            raise AnalysisError(f"{fi_.qualname}: call of the month-search helper {h.name} not understood")
        ph, px = hps
        hl = next((n for n in h.node.body if isinstance(n, ast.For)), None)
        if hl is None or not (isinstance(hl.iter, ast.Call) and attr_chain(hl.iter.func) == "enumerate" and ast.unparse(hl.iter.args[0]) == ph
                              and isinstance(hl.target, ast.Tuple) and len(hl.target.elts) == 2 and all(isinstance(e_, ast.Name) for e_ in hl.target.elts)):
            raise AnalysisError(f"{h.qualname}: search loop shape not understood")
        idx, mh = hl.target.elts[0].id, hl.target.elts[1].id
        stops = [n for n in ast.walk(hl) if isinstance(n, ast.If) and (any(isinstance(x, ast.Return) for x in n.body) or any(isinstance(x, ast.Return) for x in n.orelse))]
        accs = [s_ for s_ in ast.walk(hl) if isinstance(s_, ast.stmt) and as_increment(s_) is not None]
        if len(stops) != 1 or len(accs) != 1:
            raise AnalysisError(f"{h.qualname}: search loop shape not understood")
        pol = any(isinstance(x, ast.Return) for x in stops[0].body)
        ret = next(x for x in (stops[0].body if pol else stops[0].orelse) if isinstance(x, ast.Return))
        acc = as_increment(accs[0])[0]
        if not (isinstance(ret.value, ast.Tuple) and len(ret.value.elts) == 2 and all(isinstance(e_, ast.Name) for e_ in ret.value.elts)
                and {e_.id for e_ in ret.value.elts} == {idx, acc}):
            raise AnalysisError(f"{h.qualname}: the helper does not return (month index, hours before the month)")
        order = [e_.id for e_ in ret.value.elts]
        tg = [e_.id for e_ in call_stmt.targets[0].elts]
        mon, el = (tg[0], tg[1]) if order[0] == idx else (tg[1], tg[0])
        eh = Engine(prog, h, Hooks())
        sh = State()
        sh.env[ph] = Rat.atom("hours_in_year")
        sh.env[px] = Rat.atom("X")
        sh.env[idx] = Rat.atom("idx")
        sh.env[mh] = Rat.atom("hours_in_year[idx]")
        sh.env[acc] = Rat.atom("ACC")
        c = eh.cond(stops[0].test, sh)
        if not pol:
            c = negate(c)
        inc = eh.eval(as_increment(accs[0])[1], sh)
        init0 = any(isinstance(s_, ast.Assign) and len(s_.targets) == 1 and isinstance(s_.targets[0], ast.Name) and s_.targets[0].id == acc
                    and isinstance(s_.value, ast.Constant) and s_.value.value == 0 for s_ in h.node.body)
        acc_ok = isinstance(inc, Rat) and inc.equals(Rat.atom("hours_in_year[idx]")) and init0
        res.analysed(h.qualname)
        return {"DIY": diy, "HIY": hiy, "MON": mon, "EL": el, "pre": fn_.body[:k_], "post": fn_.body[k_ + 1:], "helper": h, "hcond": c, "hacc_ok": acc_ok,
                "X": b[px], "site": call_stmt}

    def roles(fi_):
        fn_ = fi_.node
        diy = next((n.targets[0].id for n in ast.walk(fn_) if isinstance(n, ast.Assign) and isinstance(n.targets[0], ast.Name) and _list_ints(n.value) is not None and len(_list_ints(n.value)) >= 12), None)
        if diy is not None and diy in fi_.params():
            res.ob("R19.1", f"{fi_.name}: the month lengths are the function's own non-leap table", False, prog.loc(fi_, fn_))
            res.violation("R19.1", f"{fi_.name}|table-is-a-parameter|{diy}", prog.loc(fi_, fn_), fi_.qualname,
                          f"{fi_.name} takes its month-length table from the parameter '{diy}' when one is given: the (month, day, hour) labels are then those of whatever calendar the caller passes, not of the non-leap year")
        hiy = next((n.targets[0].id for n in fn_.body if isinstance(n, ast.Assign) and isinstance(n.targets[0], ast.Name) and isinstance(n.value, ast.ListComp)
                    and len(n.value.generators) == 1 and ast.unparse(n.value.generators[0].iter) == diy), None)
        loop = next((n for n in fn_.body if isinstance(n, ast.For)), None)
        if diy is not None and hiy is not None and loop is None:
            return helper_roles(fi_, diy, hiy)
        if diy is None or hiy is None or loop is None:
            raise AnalysisError(f"{fi_.qualname}: month table / hours list / search loop not found")
        idx = None
        if isinstance(loop.iter, ast.Call) and attr_chain(loop.iter.func) == "enumerate" and ast.unparse(loop.iter.args[0]) == diy and isinstance(loop.target, ast.Tuple) and isinstance(loop.target.elts[0], ast.Name):
            idx = loop.target.elts[0].id
        elif isinstance(loop.iter, ast.Call) and attr_chain(loop.iter.func) == "range" and isinstance(loop.target, ast.Name):
            idx = loop.target.id
        brk = [n for n in ast.walk(loop) if isinstance(n, ast.If) and (any(isinstance(b, ast.Break) for b in n.body) or any(isinstance(b, ast.Break) for b in n.orelse))]
        if idx is None or len(brk) != 1:
            raise AnalysisError(f"{fi_.qualname}: search loop shape not understood")
        pol = any(isinstance(b, ast.Break) for b in brk[0].body)  # the stopping branch is the body (True) or the else (False)
        stop, go = (brk[0].body, brk[0].orelse) if pol else (brk[0].orelse, brk[0].body)
        if not go and stop and isinstance(stop[-1], ast.Break) and any(s_ is brk[0] for s_ in loop.body):
            go = loop.body[loop.body.index(brk[0]) + 1:]  # 'else' left out after the break: what follows the if is the other branch
        mon = next((s_.targets[0].id for s_ in stop if isinstance(s_, ast.Assign) and isinstance(s_.targets[0], ast.Name) and ast.unparse(s_.value) == idx), None)
        if mon is None:
            raise AnalysisError(f"{fi_.qualname}: the search does not record the month index when it stops")
        k = fn_.body.index(loop)
        return {"DIY": diy, "HIY": hiy, "loop": loop, "IDX": idx, "brk": brk[0], "pol": pol, "stop": stop, "go": go, "MON": mon, "pre": fn_.body[:k], "post": fn_.body[k + 1:]}

    def run(eng_, stmts, st_):
        for s_ in stmts:
            if isinstance(s_, (ast.Assign, ast.AugAssign)):
                out = eng_.run_stmt(s_, st_)
                if len(out) != 1:
                    raise AnalysisError("straight-line statements expected")

    q = f"{OM}.ghe_time_convert"
    fi = prog.func(q)
    R = roles(fi)
    hours_p = fi.params()[-1]
    eng = Engine(prog, fi, Hooks())
    st = State()
    st.env[hours_p] = Rat.atom("hours")
    pre = [s_ for s_ in R["pre"] if not (isinstance(s_, ast.Assign) and isinstance(s_.targets[0], ast.Name) and s_.targets[0].id in (R["DIY"], R["HIY"]))]
    run(eng, pre, st)
    st.env[R["HIY"]] = Rat.atom("hours_in_year")
    st.env[R["DIY"]] = Rat.atom("days_in_year")
    acc0 = {k: v for k, v in st.env.items() if isinstance(v, Rat) and v.is_const()}
    st.env[R["MON"]] = Rat.atom("M")
    if "helper" in R:
        st.env[R["EL"]] = sym.dot(sym.elem_atom("hours_in_year", 0), Rat.atom("M"))
    run(eng, R["post"], st)
    rets = [r for r in ast.walk(fi.node) if isinstance(r, ast.Return)]
    if len(rets) != 1 or not isinstance(rets[0].value, ast.Tuple) or len(rets[0].value.elts) != 3:
        raise AnalysisError(f"{q}: return (month, day, hour) not found")
    m_v, d_v, h_v = (eng.eval(e_, st) for e_ in rets[0].value.elts)
    HLw = Rat.atom("hours") - sym.dot(sym.elem_atom("hours_in_year", 0), Rat.atom("M"))
    ok = isinstance(m_v, Rat) and m_v.equals(Rat.atom("M") + Rat.const(1))
    res.ob("R19.1", "ghe_time_convert returns (month index + 1, day, hour)", ok, prog.loc(fi, rets[0]))
    if not ok:
        res.violation("R19.1", "time-convert|return", prog.loc(fi, rets[0]), q, f"ghe_time_convert returns {vkey(m_v)[:40]} as the month instead of the month index + 1")
    okd = isinstance(d_v, Rat) and (d_v.equals(sym.call("floor", [HLw / Rat.const(24)]) + Rat.const(1)) or d_v.equals(sym.call("floordiv", [HLw, Rat.const(24)]) + Rat.const(1)))
    okh = isinstance(h_v, Rat) and h_v.equals(sym.call("mod", [HLw, Rat.const(24)]) + Rat.const(1))
    res.ob("R19.1", f"ghe_time_convert: day = floor(h_l / 24) + 1 with h_l = hours - sum(hours of the months before) (got {vkey(d_v)[:40]})", okd, prog.loc(fi, rets[0]))
    res.ob("R19.1", f"ghe_time_convert: hour of day = h_l mod 24 + 1 (got {vkey(h_v)[:40]})", okh, prog.loc(fi, rets[0]))
    if not okd:
        res.violation("R19.1", f"time-convert|day|{vkey(d_v)[:40]}", prog.loc(fi, rets[0]), q, f"day of month is {vkey(d_v)[:120]} instead of floor(h_l / 24) + 1 with h_l = hours - sum(hours_in_year[0:month])")
    if not okh:
        res.violation("R19.1", f"time-convert|hour|{vkey(h_v)[:40]}", prog.loc(fi, rets[0]), q, f"hour of day is {vkey(h_v)[:120]} instead of h_l mod 24 + 1 with h_l = hours - sum(hours_in_year[0:month])")
    # month search: first month whose cumulative hours reach the hour index (0-based): sum + h[idx] - 1 >= hours
    from ..model import as_increment

    if "helper" in R:
        from ..paths import Cond, cmp_is

        s0 = State()
        s0.env[hours_p] = Rat.atom("hours")
        run(eng, pre, s0)
        xv = eng.eval(R["X"], s0)
        ch = R["hcond"]
        okh_ = False
        if isinstance(xv, Rat) and ch.kind == "cmp":
            c2 = Cond("cmp", ch.a.subs({"X": xv}), ch.s)
            okh_ = R["hacc_ok"] and cmp_is(c2, Rat.atom("ACC") + Rat.atom("hours_in_year[idx]") - Rat.const(1) - Rat.atom("hours"), "0+")
        res.ob("R19.1", f"ghe_time_convert: month = first one with cumulative hours - 1 >= hour index (0-based) - through the helper {R['helper'].name}", okh_, prog.loc(fi, R["site"]))
        if not okh_:
            res.violation("R19.1", "time-convert|month-search", prog.loc(fi, R["site"]), q,
                          f"the month search (helper {R['helper'].name}, called with {ast.unparse(R['X'])}) stops on '{ch.key()[:120]}' with X = {vkey(xv)[:40]}: "
                          "for a 0-based hour index it must be 'hours before the month + hours of the month - 1 >= index'; the first hour of a month is otherwise labelled as the previous month")
    loop, brk = R.get("loop"), R.get("brk")
    accs = [s_ for s_ in ast.walk(loop) if isinstance(s_, ast.stmt) and as_increment(s_) is not None] if loop is not None else []
    ok = False
    if "helper" not in R and len(accs) == 1 and any(accs[0] is x for b_ in R["go"] for x in ast.walk(b_)):
        ACC = as_increment(accs[0])[0]
        e2 = Engine(prog, fi, Hooks())
        s2 = State()
        s2.env[hours_p] = Rat.atom("hours")
        s2.env[R["HIY"]] = Rat.atom("hours_in_year")
        s2.env[R["IDX"]] = Rat.atom("idx")
        s2.env[ACC] = Rat.atom("ACC")
        run(e2, loop.body[:loop.body.index(brk)] if any(s_ is brk for s_ in loop.body) else [s_ for s_ in loop.body if s_ is not brk], s2)
        from ..paths import cmp_is, negate

        c = e2.cond(brk.test, s2)
        if not R["pol"]:
            c = negate(c)
        want = Rat.atom("ACC") + Rat.atom("hours_in_year[idx]") - Rat.const(1) - Rat.atom("hours")
        ok = cmp_is(c, want, "0+")
        inc = e2.eval(as_increment(accs[0])[1], s2)
        a0 = acc0.get(ACC)
        ok = ok and isinstance(inc, Rat) and inc.equals(Rat.atom("hours_in_year[idx]")) and a0 is not None and a0.is_zero()
    if "helper" not in R:
        res.ob("R19.1", "ghe_time_convert: month = first one with cumulative hours - 1 >= hour index (0-based), cumulative sum (from 0) advanced otherwise", ok, prog.loc(fi, brk))
        if not ok:
            res.violation("R19.1", "time-convert|month-search", prog.loc(fi, brk), q, "the month search of ghe_time_convert no longer selects the first month whose last hour index (cumulative hours - 1) reaches the given 0-based hour")
    # hours_to_month closed form
    q = f"{OM}.hours_to_month"
    fi = prog.func(q)
    R = roles(fi)
    hours_p = fi.params()[-1]
    e3 = Engine(prog, fi, Hooks())
    s3 = State()
    s3.env[hours_p] = Rat.atom("hours")
    s3.env[R["HIY"]] = Rat.atom("hours_in_year")
    s3.env[R["DIY"]] = Rat.atom("days_in_year")
    run(e3, [s_ for s_ in R["pre"] if not (isinstance(s_, ast.Assign) and isinstance(s_.targets[0], ast.Name) and s_.targets[0].id in (R["DIY"], R["HIY"], R["MON"]))], s3)
    s3.env[R["MON"]] = Rat.atom("M")
    if "helper" in R:
        s3.env[R["EL"]] = sym.dot(sym.elem_atom("hours_in_year", 0), Rat.atom("M"))
    run(e3, R["post"], s3)
    # month search of hours_to_month: first month whose cumulative hours reach the hours left in the current year
    from ..paths import cmp_is, negate

    s4 = State()
    s4.env[hours_p] = Rat.atom("hours")
    s4.env[R["HIY"]] = Rat.atom("hours_in_year")
    s4.env[R["DIY"]] = Rat.atom("days_in_year")
    run(e3, [s_ for s_ in R["pre"] if not (isinstance(s_, ast.Assign) and isinstance(s_.targets[0], ast.Name) and s_.targets[0].id in (R["DIY"], R["HIY"], R["MON"]))], s4)
    Y4 = sym.call("sum", [Rat.atom("hours_in_year")])
    left4 = Rat.atom("hours") - sym.call("floor", [Rat.atom("hours") / Y4]) * Y4
    if "helper" in R:
        from ..paths import Cond

        xv4 = e3.eval(R["X"], s4)
        ch = R["hcond"]
        c4 = Cond("cmp", ch.a.subs({"X": xv4}), ch.s) if isinstance(xv4, Rat) and ch.kind == "cmp" else ch
        oks = R["hacc_ok"] and cmp_is(c4, Rat.atom("ACC") + Rat.atom("hours_in_year[idx]") - left4, "0+")
        R = dict(R, brk=R["site"])
    else:
        s4.env[R["IDX"]] = Rat.atom("idx")
        run(e3, [s_ for s_ in R["loop"].body if s_ is not R["brk"]], s4)
        c4 = e3.cond(R["brk"].test, s4)
        if not R["pol"]:
            c4 = negate(c4)
        cum4 = sym.dot(sym.elem_atom("hours_in_year", 0), Rat.atom("idx") + Rat.const(1))
        oks = cmp_is(c4, cum4 - left4, "0+")
    res.ob("R19.1", "hours_to_month: month = first one whose cumulative hours reach the hours left in the current year (hours - whole years)", oks, prog.loc(fi, R["brk"]))
    if not oks:
        res.violation("R19.1", "hours-to-month|month-search", prog.loc(fi, R["brk"]), q,
                      f"the month search of hours_to_month stops on '{c4.key()[:140]}' instead of 'cumulative hours of months 0..idx >= hours - floor(hours / hours per year) * hours per year': beyond the first year no month matches")
    rets = [r for r in ast.walk(fi.node) if isinstance(r, ast.Return) and r.value is not None]
    if len(rets) != 1:
        raise AnalysisError(f"{q}: single return expected")
    fm = e3.eval(rets[0].value, s3)
    Y = sym.call("sum", [Rat.atom("hours_in_year")])
    NY = sym.call("floor", [Rat.atom("hours") / Y])
    okf = False
    if isinstance(fm, Rat):
        sumb = sym.dot(sym.elem_atom("hours_in_year", 0), Rat.atom("M"))
        want = NY * sym.call("len", [Rat.atom("days_in_year")]) + Rat.atom("M") + (Rat.atom("hours") - NY * Y - sumb) / Rat.atom("hours_in_year[M]")
        okf = fm.equals(want)
    res.ob("R19.1", "hours_to_month: 12 * floor(hours / hours per year) + months before + (hours into the month) / (hours of the month)", okf, prog.loc(fi, fi.node))
    if not okf:
        res.violation("R19.1", f"hours-to-month|fraction|{vkey(fm)[:60]}", prog.loc(fi, fi.node), q, f"the fractional month is {vkey(fm)[:200]}")

    # ---------------- R19.2 loads table
    q = f"{OM}.get_hourly_loading_data"
    fi = prog.func(q)
    res.analysed(q)
    it, tgt, row, header, node, filtered = _row_builder(fi)
    defs = {s.targets[0].id: s.value for s in ast.walk(fi.node) if isinstance(s, ast.Assign) and len(s.targets) == 1 and isinstance(s.targets[0], ast.Name)}
    src = it
    enumerated = isinstance(it, ast.Call) and attr_chain(it.func) == "enumerate" and len(it.args) == 1 and not it.keywords
    if enumerated:
        src = it.args[0]
    src_e = defs.get(src.id) if isinstance(src, ast.Name) else src
    ok = enumerated and attr_chain(src_e) == "design.ghe.hourly_extraction_ground_loads" and not filtered
    res.ob("R19.2", "loads table iterates the complete hourly_extraction_ground_loads in order (enumerate, no filter / slice)", ok, prog.loc(fi, node))
    if not ok:
        res.violation("R19.2", f"loads-source|{ast.unparse(it)[:60]}", prog.loc(fi, node), q, f"the loads table iterates '{ast.unparse(it)[:80]}' (-> {ast.unparse(src_e)[:60] if src_e is not None else '?'}){' with a condition' if filtered else ''} instead of every input load in order")
    if enumerated and isinstance(tgt, ast.Tuple) and len(tgt.elts) == 2 and isinstance(row, ast.List):
        iv, lv = tgt.elts[0].id, tgt.elts[1].id
        lab = None
        for s in ast.walk(node):
            if isinstance(s, ast.Assign) and isinstance(s.targets[0], ast.Tuple) and isinstance(s.value, ast.Call) and attr_chain(s.value.func) == "self.ghe_time_convert":
                lab = ([e.id for e in s.targets[0].elts if isinstance(e, ast.Name)], ast.unparse(s.value.args[0]) if s.value.args else None, len(s.value.args) + len(s.value.keywords))
        row_width = len(row.elts)
        if lab is None and row.elts and isinstance(row.elts[0], ast.Starred) and isinstance(row.elts[0].value, ast.Call) and attr_chain(row.elts[0].value.func) == "self.ghe_time_convert":
            # [*self.ghe_time_convert(index), index, load]: the three labels spliced in
            c_ = row.elts[0].value
            lab = (["<month>", "<day>", "<hour>"], ast.unparse(c_.args[0]) if c_.args else None, len(c_.args) + len(c_.keywords))
            okr = lab[1] == iv and [ast.unparse(e) for e in row.elts[1:]] == [iv, lv]
            row_width = 3 + len(row.elts) - 1
        else:
            okr = lab is not None and lab[1] == iv and [ast.unparse(e) for e in row.elts] == lab[0] + [iv, lv]
        if lab is not None and lab[2] != 1:
            res.ob("R19.2", "the labels come from ghe_time_convert(index) alone - the non-leap calendar, whatever year the loads belong to", False, prog.loc(fi, row))
            res.violation("R19.2", f"loads-calendar|{lab[2]}-arguments", prog.loc(fi, row), q,
                          "ghe_time_convert is given more than the hour index (a month table): the labels of the 8760 rows then follow that table - with a leap load year every row after February is one day early")
        res.ob("R19.2", f"each row = [month, day, hour] of ghe_time_convert(index), index, load ({ast.unparse(row)})", okr, prog.loc(fi, row))
        if not okr:
            res.violation("R19.2", f"loads-row|{ast.unparse(row)[:60]}", prog.loc(fi, row), q, f"a loads row is {ast.unparse(row)[:100]} with labels from ghe_time_convert({lab[1] if lab else '?'}); expected [month, day, hour, index, load] labelled by the row's own index")
        okh = header is not None and len(header.elts) == row_width
        res.ob("R19.2", "header and rows have the same number of columns", okh, prog.loc(fi, header) if header is not None else prog.loc(fi, fi.node))
        if not okh:
            res.violation("R19.2", "loads-header-width", prog.loc(fi, fi.node), q, "header and rows of the loads table have different widths")
    # ---------------- R19.3 bore field table
    q = f"{OM}.get_borehole_location_data"
    fi = prog.func(q)
    res.analysed(q)
    it, tgt, row, header, node, filtered = _row_builder(fi)
    ok = attr_chain(it) == "design.ghe.gFunction.bore_locations" and not filtered
    res.ob("R19.3", "bore-field table iterates gFunction.bore_locations completely and in order", ok, prog.loc(fi, node))
    if not ok:
        res.violation("R19.3", f"bore-source|{ast.unparse(it)[:60]}", prog.loc(fi, node), q, f"the bore-field table iterates '{ast.unparse(it)[:80]}'{' with a condition' if filtered else ''} instead of every selected coordinate in order")
    if isinstance(tgt, ast.Name) and isinstance(row, ast.List):
        okr = [ast.unparse(e) for e in row.elts] == [f"{tgt.id}[0]", f"{tgt.id}[1]"]
    elif isinstance(tgt, ast.Tuple) and isinstance(row, ast.List):
        okr = [ast.unparse(e) for e in row.elts] == [ast.unparse(e) for e in tgt.elts]
    else:
        okr = False
    res.ob("R19.3", f"each row is [x, y] of its coordinate ({ast.unparse(row)})", okr, prog.loc(fi, row))
    if not okr:
        res.violation("R19.3", f"bore-row|{ast.unparse(row)[:60]}", prog.loc(fi, row), q, f"a bore-field row is {ast.unparse(row)[:80]} instead of [x, y] of the coordinate it lists")
    okh = header is not None and [ast.literal_eval(e) for e in header.elts] == ["x", "y"]
    res.ob("R19.3", "header is [x, y]", okh, prog.loc(fi, fi.node))
    if not okh:
        res.violation("R19.3", "bore-header", prog.loc(fi, fi.node), q, "the bore-field header is not ['x', 'y']")
    # ---------------- R19.4 g-function table
    q = f"{OM}.get_g_function_data"
    fi = prog.func(q)
    res.analysed(q)
    calls = [c for c in ast.walk(fi.node) if isinstance(c, ast.Call) and attr_chain(c.func) == "design.ghe.grab_g_function"]
    e4 = Engine(prog, fi, Hooks())
    s4 = State()
    ok = False
    if len(calls) == 1 and len(calls[0].args) == 1:
        v = e4.eval(inline_single_defs(fi.node, calls[0].args[0]), s4)
        ok = isinstance(v, Rat) and v.equals(Rat.atom("design.ghe.B_spacing") / Rat.atom("design.ghe.bhe.b.H"))
    res.ob("R19.4", "g-function table comes from grab_g_function(B_spacing / H) - as in GHE.simulate", ok, prog.loc(fi, calls[0]) if calls else prog.loc(fi, fi.node))
    if not ok:
        res.violation("R19.4", "gfunc-source", prog.loc(fi, calls[0]) if calls else prog.loc(fi, fi.node), q, "the g-function table is not produced by grab_g_function(B_spacing / H), the curve the simulation uses")
    sim = prog.func("ghedesigner.ground_heat_exchangers.GHE.simulate")
    sc_ = [c for c in ast.walk(sim.node) if isinstance(c, ast.Call) and attr_chain(c.func) == "self.grab_g_function"]
    e5 = Engine(prog, sim, Hooks())
    s5 = State()
    for s in sim.node.body:
        if isinstance(s, ast.Assign) and isinstance(s.targets[0], ast.Name):
            e5._s_Assign(s, s5)
            if any(c is x for c in sc_ for x in ast.walk(s)):
                break
    ok2 = len(sc_) == 1 and isinstance(e5.eval(sc_[0].args[0], s5), Rat) and e5.eval(sc_[0].args[0], s5).equals(Rat.atom("self.B_spacing") / Rat.atom("self.bhe.b.H"))
    res.ob("R19.4", "GHE.simulate uses grab_g_function(B_spacing / H) as well", ok2, prog.loc(sim, sc_[0]) if sc_ else prog.loc(sim, sim.node))
    if not ok2:
        res.violation("R19.4", "simulate-gfunc-arg", prog.loc(sim, sim.node), sim.qualname, "GHE.simulate no longer evaluates the g-function at B_spacing / H: table and simulation differ")
    asg = next((s for s in ast.walk(fi.node) if isinstance(s, ast.Assign) and calls and s.value is calls[0]), None)
    names = [e.id for e in asg.targets[0].elts] if asg is not None and isinstance(asg.targets[0], ast.Tuple) else []
    defs = {s.targets[0].id: ast.unparse(s.value) for s in ast.walk(fi.node) if isinstance(s, ast.Assign) and len(s.targets) == 1 and isinstance(s.targets[0], ast.Name)}
    zp = [c for c in ast.walk(fi.node) if isinstance(c, ast.Call) and attr_chain(c.func) == "zip" and len(c.args) == 3]
    okz = False
    if len(names) == 2 and len(zp) == 1:
        cols = [defs.get(a.id, ast.unparse(a)) if isinstance(a, ast.Name) else ast.unparse(a) for a in zp[0].args]
        okz = cols == [f"{names[0]}.x", f"{names[0]}.y", f"{names[1]}.y"]
    res.ob("R19.4", "rows are (ln(t/ts), g, g_bhw) = (x and y of the simulation curve, y of the wall curve), in the curve's order", okz, prog.loc(fi, zp[0]) if zp else prog.loc(fi, fi.node))
    if not okz:
        res.violation("R19.4", "gfunc-rows", prog.loc(fi, zp[0]) if zp else prog.loc(fi, fi.node), q, "the g-function table rows are not (x, y) of the simulation curve with y of the wall curve")
    _check_custody(prog, res)
    _check_loads_custody(prog, res)
    _check_files(prog, res)
    return res


FILE_BUILDERS = {"BoreFieldData": "get_borehole_location_data", "Loadings": "get_hourly_loading_data", "Gfunction": "get_g_function_data"}


def _check_files(prog: Program, res: Result):
    w = prog.func(f"{OM}.write_all_output_files")
    init = prog.func(f"{OM}.__init__")
    res.analysed(w.qualname)
    res.analysed(init.qualname)
    # rows attribute <- builder(design parameter) in the constructor
    filled = {}
    for s_ in walk_no_nested(init.node):
        if isinstance(s_, ast.Assign) and len(s_.targets) == 1 and (attr_chain(s_.targets[0]) or "").startswith("self."):
            filled.setdefault(attr_chain(s_.targets[0]), []).append(s_)
    # file name <- rows attribute: the open(...) whose path mentions the file stem, and the writerows(...) inside that with-block
    found = {}
    for wi in ast.walk(w.node):
        if not isinstance(wi, ast.With):
            continue
        stems = [k for k in FILE_BUILDERS for item in wi.items for c in ast.walk(item.context_expr) if isinstance(c, ast.Constant) and isinstance(c.value, str) and k in c.value]
        if len(set(stems)) != 1:
            continue
        rows = [c for b_ in wi.body for c in ast.walk(b_) if isinstance(c, ast.Call) and isinstance(c.func, ast.Attribute) and c.func.attr in ("writerows", "writerow", "write") and c.args]
        found.setdefault(stems[0], []).append((wi, rows))
    for stem, builder in FILE_BUILDERS.items():
        if stem not in found:
            raise AnalysisError(f"{w.qualname}: no with-open block writes {stem}*.csv")
        for wi, rows in found[stem]:
            r = root_of(w.node, rows[0].args[0]) if len(rows) == 1 else ("unknown", wi, "not exactly one write in the block")
            if r[0] == "unknown":
                raise AnalysisError(f"{prog.loc(w, wi)}: what is written to {stem} is not understood ({r[2]})")
            attr = r[1] if r[0] == "chain" else None
            stores = filled.get(attr, []) if attr else []
            okb = False
            desc = "?"
            if r[0] == "chain" and len(stores) == 1:
                v = stores[0].value
                desc = ast.unparse(v)[:60]
                if isinstance(v, ast.Call) and attr_chain(v.func) == f"self.{builder}" and len(v.args) == 1 and not v.keywords:
                    ra = root_of(init.node, v.args[0])
                    okb = ra[0] == "param"
            res.ob("R19.7", f"{stem}.csv <- {attr} <- {desc} with the constructor's own design", okb, prog.loc(w, wi))
            if not okb:
                res.violation("R19.7", f"file|{stem}", prog.loc(w, rows[0]) if rows else prog.loc(w, wi), w.qualname,
                              f"{stem}.csv is written from {ast.unparse(rows[0].args[0])[:50] if rows else '?'} (= {desc}), not from the rows {builder}(design) builds for the design given to the constructor")
    # the manager hands its current search to the OutputManager and does not keep an earlier one
    from ..custody import call_sites

    n_ctor = 0
    for fi, n, b in call_sites(prog, init):
        n_ctor += 1
        res.analysed(fi.qualname)
        d = b.get("design")
        r = root_of(fi.node, d) if d is not None else ("unknown", n, "no design argument")
        if r[0] == "unknown":
            raise AnalysisError(f"{prog.loc(fi, n)}: origin of the design given to OutputManager() not understood ({r[2]})")
        ok = r[0] == "param" or (r[0] == "chain" and r[1] == "self._search")
        res.ob("R19.7", f"{fi.qualname}: OutputManager(design = {r[1] if r[0] in ('param', 'chain') else ast.unparse(d)[:40]}) - the manager's current search", ok, prog.loc(fi, n))
        if not ok:
            res.violation("R19.7", f"design-arg|{fi.qualname}", prog.loc(fi, n), fi.qualname, f"OutputManager is built from {ast.unparse(d)[:60]} instead of the manager's current search")
    if n_ctor < 1:
        raise AnalysisError("no construction of OutputManager found")
    from . import c13

    tmp = Result("C13")
    c13._check_keyless_memos(prog, tmp)
    memo = [f for f in tmp.findings if "self.results" in f.key]
    res.ob("R19.7", "prepare_results builds a new OutputManager on every call (no early return on an earlier self.results whose inputs another method changes)", not memo, "ghedesigner/manager.py")
    for f in memo:
        res.violation("R19.7", f.key.split("|", 1)[-1], f.where, f.func, f.message + " - the written tables then describe the earlier design")


def _check_loads_custody(prog: Program, res: Result):
    fi = prog.func(f"{OM}.get_hourly_loading_data")
    it = _row_builder(fi)[0]
    src = inline_single_defs(fi.node, it.args[0]) if isinstance(it, ast.Call) and attr_chain(it.func) == "enumerate" and it.args else it
    ch = attr_chain(src) or ""
    if not ch.startswith("design.ghe."):
        return  # R19.2 reports this
    attr = ch.split(".", 2)[2]
    ghe_cls = "ghedesigner.ground_heat_exchangers.GHE"
    prog.cls(ghe_cls)
    w = Walk(prog)
    w.from_attr(ghe_cls, attr)
    seen = set()
    for d, f_, n in w.links:
        if d in seen:
            continue
        seen.add(d)
        res.ob("R19.6", f"loads handed over unchanged: {d}", True, prog.loc(f_, n))
        res.analysed(f_.qualname)
    for d, f_, n, why in w.broken:
        res.ob("R19.6", f"loads handed over unchanged: {d}", False, prog.loc(f_, n))
        res.violation("R19.6", f"loads-custody|{d.split(':')[-1].strip()[:50]}", prog.loc(f_, n), f_.qualname,
                      f"the loads the table lists are not the input loads: at '{d}' {why}")
    for kind, text, f_, n in w.sources:
        ok = kind in ("none", "api") or (kind == "elem" and f_.module == "ghedesigner.manager" and not f_.cls)
        res.ob("R19.6", f"origin of the listed loads: {kind} {text}", ok, prog.loc(f_, n))
        if not ok:
            res.violation("R19.6", f"loads-origin|{kind}|{text[:50]}", prog.loc(f_, n), f_.qualname,
                          f"the loads the table lists originate from {text} ({kind}) in {f_.qualname}, not from the manager's input")
    res.count("loads_custody_links", len(seen))
    if not w.broken:
        res.floor("loads_custody_links", 20)


# ---------------------------------------------------------------------------
FIELD = "bore_locations"
HOLDER = "gFunction"


def _check_custody(prog: Program, res: Result):
    funcs = list(prog.funcs.values())
    # (1) who stores / mutates .bore_locations
    ctor = None
    n_sites = 0
    for fi in funcs:
        for n in walk_no_nested(fi.node):
            if isinstance(n, ast.Attribute) and n.attr == FIELD and isinstance(n.ctx, (ast.Store, ast.Del)):
                n_sites += 1
                stmt = next((s for s in walk_no_nested(fi.node) if isinstance(s, ast.Assign) and any(t is n for t in s.targets)), None)
                own = fi.name == "__init__" and attr_chain(n) == f"self.{FIELD}" and stmt is not None
                r = root_of(fi.node, stmt.value) if own else None
                ok = own and r[0] == "param"
                res.ob("R19.5", f"{fi.qualname}: stores .{FIELD} = its own parameter, unchanged", bool(ok), prog.loc(fi, n))
                if own and r[0] == "unknown":
                    raise AnalysisError(f"{fi.qualname}: origin of the stored {FIELD} not understood ({r[2]})")
                if not ok:
                    res.violation("R19.5", f"store|{fi.qualname}", prog.loc(fi, n), fi.qualname,
                                  f".{FIELD} is {'computed in the constructor (' + r[2] + ')' if own else 'overwritten outside the constructor of its class'}: the bore-field table no longer lists the coordinates the design was built from")
                else:
                    if ctor is not None and ctor[0] is not fi:
                        raise AnalysisError(f"two classes store .{FIELD}")
                    ctor = (fi, r[1])
            mut = None
            if isinstance(n, ast.Call) and isinstance(n.func, ast.Attribute) and n.func.attr in MUTATORS and isinstance(n.func.value, ast.Attribute) and n.func.value.attr == FIELD:
                mut = n
            if isinstance(n, ast.Subscript) and isinstance(n.ctx, (ast.Store, ast.Del)) and isinstance(n.value, ast.Attribute) and n.value.attr == FIELD:
                mut = n
            if isinstance(n, ast.AugAssign) and isinstance(n.target, ast.Attribute) and n.target.attr == FIELD:
                mut = n
            if mut is not None:
                n_sites += 1
                res.ob("R19.5", f"{fi.qualname}: .{FIELD} modified in place", False, prog.loc(fi, mut))
                res.violation("R19.5", f"mutate|{fi.qualname}|{norm_stmt(mut)[:60]}", prog.loc(fi, mut), fi.qualname, f".{FIELD} is modified in place ({norm_stmt(mut)[:80]})")
    if ctor is None:
        if not any(f.rule == "R19.5" for f in res.findings):
            raise AnalysisError(f"no constructor stores .{FIELD}")
        return
    cfi, cparam = ctor
    cls_name = cfi.cls
    # (2) carriers: (function, parameter) pairs whose parameter ends up in .bore_locations; start with the constructor
    carriers = {(cfi.qualname, cparam): cfi}
    producers = {cfi.cls}  # call names whose RESULT is an object holding the custody
    work = [(cfi, cparam)]
    seen_calls = 0
    while work:
        tfi, tparam = work.pop()
        tname = tfi.cls if tfi.name == "__init__" else tfi.name
        for fi, n, b in call_sites(prog, tfi):
            if tparam not in b:
                if tparam in tfi.defaults():
                    res.ob("R19.5", f"{fi.qualname}: {tname}(...) leaves {tparam} at its default", False, prog.loc(fi, n))
                    res.violation("R19.5", f"pass|{fi.qualname}|{tname}|default", prog.loc(fi, n), fi.qualname, f"{tname}() is called without its {tparam}")
                    continue
                raise AnalysisError(f"{fi.qualname}: argument {tparam} of {tname}(...) not found")
            seen_calls += 1
            r = root_of(fi.node, b[tparam])
            if r[0] == "unknown":
                raise AnalysisError(f"{prog.loc(fi, n)}: origin of the {tparam} passed to {tname}() not understood ({r[2]})")
            ok = r[0] in ("param", "elem") or (r[0] == "chain" and r[1] == f"self.{HOLDER}.{FIELD}")
            res.ob("R19.5", f"{fi.qualname}: passes {'its parameter ' + r[1] if r[0] == 'param' else r[1] if r[0] in ('chain', 'elem') else ast.unparse(b[tparam])[:40]} unchanged as {tparam} of {tname}()", ok, prog.loc(fi, n))
            if not ok:
                why = r[2] if r[0] == "broken" else f"it comes from {ast.unparse(r[1])[:60] if r[0] == 'call' else r[1]}"
                res.violation("R19.5", f"pass|{fi.qualname}|{tname}", prog.loc(fi, r[1]) if r[0] == "broken" and hasattr(r[1], "lineno") else prog.loc(fi, n), fi.qualname,
                              f"the {tparam} handed to {tname}() is not the coordinate container the caller was given: {why}; the bore-field table lists it through {HOLDER}.{FIELD}")
                continue
            if r[0] == "param" and (fi.qualname, r[1]) not in carriers and not fi.cls:
                # a module-level function that hands its parameter on and returns the object: follow its callers too
                rets = [x for x in walk_no_nested(fi.node) if isinstance(x, ast.Return) and x.value is not None]
                if rets and all((rr := root_of(fi.node, x.value))[0] == "call" and rr[1] is n for x in rets):
                    carriers[(fi.qualname, r[1])] = fi
                    producers.add(fi.name)
                    work.append((fi, r[1]))
    # (3) stores of .gFunction: a parameter, or the result of a producer
    n_hold = 0
    holders = []
    for fi in funcs:
        for s in walk_no_nested(fi.node):
            if not isinstance(s, ast.Assign):
                continue
            for t in s.targets:
                if isinstance(t, ast.Attribute) and t.attr == HOLDER:
                    n_hold += 1
                    r = root_of(fi.node, s.value)
                    if r[0] == "unknown":
                        raise AnalysisError(f"{prog.loc(fi, s)}: origin of the stored {HOLDER} not understood ({r[2]})")
                    ok = (r[0] == "param" and fi.name == "__init__") or (r[0] == "call" and (attr_chain(r[1].func) or "").split(".")[-1] in producers)
                    res.ob("R19.5", f"{fi.qualname}: .{HOLDER} = {'its constructor parameter' if r[0] == 'param' else ast.unparse(r[1])[:50] if r[0] == 'call' else r[1]}", ok, prog.loc(fi, s))
                    if ok and r[0] == "param":
                        holders.append((fi, r[1]))
                    if not ok:
                        res.violation("R19.5", f"holder|{fi.qualname}", prog.loc(fi, s), fi.qualname,
                                      f".{HOLDER} is set from {ast.unparse(s.value)[:60]}, which is neither the constructor's argument nor a g-function built from the coordinates in custody")
    # (4) constructions of the classes that store their parameter in .gFunction: the argument is a g-function made by a producer
    hwork = list(holders)
    hseen = set()
    while hwork:
        tfi, tparam = hwork.pop()
        if (tfi.qualname, tparam) in hseen:
            continue
        hseen.add((tfi.qualname, tparam))
        for fi, n, b in call_sites(prog, tfi):
            if tparam not in b:
                raise AnalysisError(f"{prog.loc(fi, n)}: argument {tparam} of {tfi.cls}(...) not found")
            n_hold += 1
            r = root_of(fi.node, b[tparam])
            if r[0] == "unknown":
                raise AnalysisError(f"{prog.loc(fi, n)}: origin of the {tparam} passed to {tfi.cls}() not understood ({r[2]})")
            ok = (r[0] == "param" and fi.name == "__init__") or (r[0] == "call" and (attr_chain(r[1].func) or "").split(".")[-1] in producers)
            res.ob("R19.5", f"{fi.qualname}: {tfi.cls}(...) receives {'its own constructor parameter ' + r[1] if r[0] == 'param' else ast.unparse(r[1])[:44] + '...' if r[0] == 'call' else r[1]} as {tparam}", ok, prog.loc(fi, n))
            if not ok:
                res.violation("R19.5", f"holder-arg|{fi.qualname}|{tfi.cls}", prog.loc(fi, n), fi.qualname,
                              f"the {tparam} given to {tfi.cls}() is {ast.unparse(b[tparam])[:60]}: not a g-function built from the coordinates in custody")
            elif r[0] == "param":
                hwork.append((fi, r[1]))
    res.count("custody_sites", n_sites + seen_calls + n_hold)
    if not any(f.rule == "R19.5" for f in res.findings):  # a broken link ends the walk up the callers: the count is only meaningful on an intact chain
        res.floor("custody_sites", 10)
    for q_ in sorted({k[0] for k in carriers}):
        res.analysed(q_)


_CAL_OLD = '    @staticmethod\n    def hours_to_month(hours):\n        days_in_year = [31, 28, 31, 30, 31, 30, 31, 31, 30, 31, 30, 31]\n        hours_in_year = [HRS_IN_DAY * x for x in days_in_year]\n        n_years = floor(hours / sum(hours_in_year))\n        frac_month = n_years * len(days_in_year)\n        month_in_year = 0\n        for idx, _ in enumerate(days_in_year):\n            hours_left = hours - n_years * sum(hours_in_year)\n            if sum(hours_in_year[0 : idx + 1]) >= hours_left:\n                month_in_year = idx\n                break\n        frac_month += month_in_year\n        h_l = hours - n_years * sum(hours_in_year) - sum(hours_in_year[0:month_in_year])\n        frac_month += h_l / (hours_in_year[month_in_year])\n        return frac_month\n\n    @staticmethod\n    def ghe_time_convert(hours):\n        days_in_year = [31, 28, 31, 30, 31, 30, 31, 31, 30, 31, 30, 31]\n        hours_in_year = [HRS_IN_DAY * x for x in days_in_year]\n        month_in_year = 0\n        year_hour_sum = 0\n        for idx, _ in enumerate(days_in_year):\n            hours_left = hours\n            if year_hour_sum + hours_in_year[idx] - 1 >= hours_left:\n                month_in_year = idx\n                break\n            else:\n                year_hour_sum += hours_in_year[idx]\n        h_l = hours - sum(hours_in_year[0:month_in_year])\n        day_in_month = floor(h_l / HRS_IN_DAY) + 1\n        hour_in_day = h_l % HRS_IN_DAY + 1\n        return month_in_year + 1, day_in_month, hour_in_day\n'
_CAL_HELPER_BAD = '    @staticmethod\n    def _locate_month(hours_in_year, hour_of_year):\n        elapsed = 0\n        for idx, month_hours in enumerate(hours_in_year):\n            if elapsed + month_hours >= hour_of_year:\n                return idx, elapsed\n            elapsed += month_hours\n        return 0, 0\n\n    @staticmethod\n    def hours_to_month(hours):\n        days_in_year = [31, 28, 31, 30, 31, 30, 31, 31, 30, 31, 30, 31]\n        hours_in_year = [HRS_IN_DAY * x for x in days_in_year]\n        n_years = floor(hours / sum(hours_in_year))\n        hours_left = hours - n_years * sum(hours_in_year)\n        month_in_year, elapsed = OutputManager._locate_month(hours_in_year, hours_left)\n        frac_month = n_years * len(days_in_year) + month_in_year\n        frac_month += (hours_left - elapsed) / (hours_in_year[month_in_year])\n        return frac_month\n\n    @staticmethod\n    def ghe_time_convert(hours):\n        days_in_year = [31, 28, 31, 30, 31, 30, 31, 31, 30, 31, 30, 31]\n        hours_in_year = [HRS_IN_DAY * x for x in days_in_year]\n        month_in_year, elapsed = OutputManager._locate_month(hours_in_year, hours)\n        h_l = hours - elapsed\n        day_in_month = floor(h_l / HRS_IN_DAY) + 1\n        hour_in_day = h_l % HRS_IN_DAY + 1\n        return month_in_year + 1, day_in_month, hour_in_day\n'
_CAL_HELPER_OK = '    @staticmethod\n    def _locate_month(hours_in_year, hour_of_year):\n        elapsed = 0\n        for idx, month_hours in enumerate(hours_in_year):\n            if elapsed + month_hours >= hour_of_year:\n                return idx, elapsed\n            elapsed += month_hours\n        return 0, 0\n\n    @staticmethod\n    def hours_to_month(hours):\n        days_in_year = [31, 28, 31, 30, 31, 30, 31, 31, 30, 31, 30, 31]\n        hours_in_year = [HRS_IN_DAY * x for x in days_in_year]\n        n_years = floor(hours / sum(hours_in_year))\n        hours_left = hours - n_years * sum(hours_in_year)\n        month_in_year, elapsed = OutputManager._locate_month(hours_in_year, hours_left)\n        frac_month = n_years * len(days_in_year) + month_in_year\n        frac_month += (hours_left - elapsed) / (hours_in_year[month_in_year])\n        return frac_month\n\n    @staticmethod\n    def ghe_time_convert(hours):\n        days_in_year = [31, 28, 31, 30, 31, 30, 31, 31, 30, 31, 30, 31]\n        hours_in_year = [HRS_IN_DAY * x for x in days_in_year]\n        month_in_year, elapsed = OutputManager._locate_month(hours_in_year, hours + 1)\n        h_l = hours - elapsed\n        day_in_month = floor(h_l / HRS_IN_DAY) + 1\n        hour_in_day = h_l % HRS_IN_DAY + 1\n        return month_in_year + 1, day_in_month, hour_in_day\n'

GHXM = "ghedesigner.ground_heat_exchangers"
GFM = "ghedesigner.gfunction"
SRM = "ghedesigner.search_routines"

DSM = "ghedesigner.design"
MGM = "ghedesigner.manager"

VARIANTS = [
    Variant("the loads table labels its hours with the load year's month table (seeded C19_g)", "break",
            [(OUT, "    def ghe_time_convert(hours):\n        days_in_year = [31, 28, 31, 30, 31, 30, 31, 31, 30, 31, 30, 31]\n", "    def ghe_time_convert(hours, days_in_year=None):\n        if days_in_year is None:\n            days_in_year = [31, 28, 31, 30, 31, 30, 31, 31, 30, 31, 30, 31]\n"),
             (OUT, "            month, day_in_month, hour_in_day = self.ghe_time_convert(hour)\n", "            month, day_in_month, hour_in_day = self.ghe_time_convert(hour, design.ghe.hybrid_load.days_in_month[1:13])\n")], "R19.1"),
    Variant("prepare_results keeps the earlier result while the report labels are unchanged (seeded C19_d)", "break",
            [(MGM, "    def prepare_results(self, project_name: str, note: str, author: str, iteration_name: str):\n", "    def prepare_results(self, project_name: str, note: str, author: str, iteration_name: str):\n        labels = (project_name, note, author, iteration_name)\n        if self.results is not None and labels == getattr(self, '_results_labels', None):\n            return\n        self._results_labels = labels\n")], "R19.7"),
    Variant("bore-field file written from the loads rows", "break",
            [(OUT, "            csv.writer(f_csv).writerows(self.borehole_location_data_rows)", "            csv.writer(f_csv).writerows(self.hourly_loading_data_rows)")], "R19.7"),
    Variant("the constructor builds the g-function rows from another object's design", "break",
            [(OUT, "        self.g_function_data_rows = self.get_g_function_data(design)", "        self.g_function_data_rows = self.get_g_function_data(getattr(design, \"previous\", design))")], "R19.7"),
    Variant("rows handed to the writer through a local", "benign",
            [(OUT, "            csv.writer(f_csv).writerows(self.borehole_location_data_rows)", "            rows = self.borehole_location_data_rows\n            csv.writer(f_csv).writerows(rows)")]),
    Variant("the GHE keeps its loads rounded to whole watts", "break",
            [(GHXM, "        self.hourly_extraction_ground_loads = hourly_extraction_ground_loads\n        self.times = []", "        self.hourly_extraction_ground_loads = [round(q) for q in hourly_extraction_ground_loads]\n        self.times = []")], "R19.6"),
    Variant("the GHE keeps a list copy of its loads", "benign",
            [(GHXM, "        self.hourly_extraction_ground_loads = hourly_extraction_ground_loads\n        self.times = []", "        self.hourly_extraction_ground_loads = list(hourly_extraction_ground_loads)\n        self.times = []")]),
    Variant("the design object truncates the loads to one year", "break",
            [(DSM, "        self.hourly_extraction_ground_loads = hourly_extraction_ground_loads\n        self.method = method", "        self.hourly_extraction_ground_loads = hourly_extraction_ground_loads[:8760]\n        self.method = method")], "R19.6"),
    Variant("the manager stores clipped loads", "break",
            [(MGM, "        self._ground_loads = hourly_ground_loads\n", "        self._ground_loads = np.clip(hourly_ground_loads, -1.0e6, 1.0e6).tolist()\n")], "R19.6"),
    Variant("the manager zeroes small loads in place after storing them", "break",
            [(MGM, "        self._ground_loads = hourly_ground_loads\n", "        self._ground_loads = hourly_ground_loads\n        for i, q in enumerate(hourly_ground_loads):\n            if abs(q) < 1.0:\n                self._ground_loads[i] = 0.0\n")], "R19.6"),
    Variant("compute_g_functions rebuilds the g-function in a frame anchored at the field's corner (seeded C19_c)", "break",
            [(GHXM, "        coordinates = self.gFunction.bore_locations\n",
              "        x_0 = min(x for x, _ in self.gFunction.bore_locations)\n        y_0 = min(y for _, y in self.gFunction.bore_locations)\n        coordinates = [(x - x_0, y - y_0) for x, y in self.gFunction.bore_locations]\n")], "R19.5"),
    Variant("compute_g_functions hands a copy of its own coordinates on", "benign",
            [(GHXM, "        coordinates = self.gFunction.bore_locations\n", "        own = self.gFunction\n        coordinates = [(x, y) for x, y in own.bore_locations]\n")]),
    Variant("the g-function object stores its coordinates sorted", "break",
            [(GFM, "        self.bore_locations: list = bore_locations\n", "        self.bore_locations: list = sorted(bore_locations)\n")], "R19.5"),
    Variant("the g-function object stores a list copy of its coordinates", "benign",
            [(GFM, "        self.bore_locations: list = bore_locations\n", "        self.bore_locations: list = list(bore_locations)\n")]),
    Variant("the builder records rounded coordinates", "break",
            [(GFM, '        "bore_locations": coordinates,\n', '        "bore_locations": [(round(x, 1), round(y, 1)) for x, y in coordinates],\n')], "R19.5"),
    Variant("initialize_ghe drops duplicate coordinates before building the g-function", "break",
            [(SRM, "        self.ghe.bhe.b.H = h\n        borehole = self.ghe.bhe.b\n        fluid = self.ghe.bhe.fluid\n", "        coordinates = sorted(set(map(tuple, coordinates)))\n        self.ghe.bhe.b.H = h\n        borehole = self.ghe.bhe.b\n        fluid = self.ghe.bhe.fluid\n")], "R19.5"),
    Variant("month search extracted into a shared helper, called with the 0-based index as if it were elapsed hours (seeded C19_b)", "break", [(OUTM, _CAL_OLD, _CAL_HELPER_BAD)], "R19.1"),
    Variant("month search extracted into a shared helper, ghe_time_convert passes index + 1", "benign", [(OUTM, _CAL_OLD, _CAL_HELPER_OK)]),
    Variant("hours_to_month: month search compares against the total hours (seeded C19)", "break",
            [(OUTM, """            hours_left = hours - n_years * sum(hours_in_year)
            if sum(hours_in_year[0 : idx + 1]) >= hours_left:""", """            if sum(hours_in_year[0 : idx + 1]) >= hours:""")], "R19.1"),
    Variant("hours_to_month: hours_left hoisted out of the loop", "benign",
            [(OUTM, """        month_in_year = 0
        for idx, _ in enumerate(days_in_year):
            hours_left = hours - n_years * sum(hours_in_year)
            if sum(hours_in_year[0 : idx + 1]) >= hours_left:""", """        hours_left = hours - n_years * sum(hours_in_year)
        month_in_year = 0
        for idx, _ in enumerate(days_in_year):
            if sum(hours_in_year[0 : idx + 1]) >= hours_left:"""),
             (OUTM, "        h_l = hours - n_years * sum(hours_in_year) - sum(hours_in_year[0:month_in_year])", "        h_l = hours_left - sum(hours_in_year[0:month_in_year])")]),
    Variant("bore-field columns swapped", "break", [(OUT, "            csv_array.append([bore_location[0], bore_location[1]])", "            csv_array.append([bore_location[1], bore_location[0]])")], "R19.3"),
    Variant("last load dropped from the table", "break", [(OUT, "        hourly_loadings = design.ghe.hourly_extraction_ground_loads\n", "        hourly_loadings = design.ghe.hourly_extraction_ground_loads[:-1]\n")], "R19.2"),
    Variant("g-function table taken at the maximum height", "break",
            [(OUT, "        gf_adjusted, gf_bhw_adjusted = design.ghe.grab_g_function(design.ghe.B_spacing / float(design.ghe.bhe.b.H))", "        gf_adjusted, gf_bhw_adjusted = design.ghe.grab_g_function(design.ghe.B_spacing / float(design.ghe.sim_params.max_height))")], "R19.4"),
    Variant("ghe_time_convert: February has 29 days", "break", [(OUT, "    def ghe_time_convert(hours):\n        days_in_year = [31, 28, 31,", "    def ghe_time_convert(hours):\n        days_in_year = [31, 29, 31,")], "R19.1"),
    Variant("hour of day zero-based", "break", [(OUT, "        hour_in_day = h_l % HRS_IN_DAY + 1", "        hour_in_day = h_l % HRS_IN_DAY")], "R19.1"),
    Variant("loads labelled with the next hour's label", "break", [(OUT, "            month, day_in_month, hour_in_day = self.ghe_time_convert(hour)", "            month, day_in_month, hour_in_day = self.ghe_time_convert(hour + 1)")], "R19.2"),
    Variant("month search off by one hour", "break", [(OUT, "            if year_hour_sum + hours_in_year[idx] - 1 >= hours_left:", "            if year_hour_sum + hours_in_year[idx] >= hours_left:")], "R19.1"),
    Variant("zero loads skipped in the table", "break",
            [(OUT, "        for hour, hour_load in enumerate(hourly_loadings):\n            month, day_in_month", "        for hour, hour_load in enumerate(hourly_loadings):\n            if hour_load == 0:\n                continue\n            month, day_in_month")], "R19.2"),
    Variant("bore-field rows through a comprehension", "benign",
            [(OUT, "        csv_array = [[\"x\", \"y\"]]\n        for bore_location in design.ghe.gFunction.bore_locations:\n            csv_array.append([bore_location[0], bore_location[1]])\n        return csv_array",
              "        csv_array = [[\"x\", \"y\"]]\n        csv_array += [[x, y] for x, y in design.ghe.gFunction.bore_locations]\n        return csv_array")]),
]
