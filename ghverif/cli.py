"""entry point:  python -m ghverif.cli <Cxx> [--tier quick|thorough] [--replay file] [--root dir]"""
from __future__ import annotations

import argparse
import importlib
import json
import os
import sys
import time
import traceback

from . import report
from .model import AnalysisError, Program, load_sources

RULES = {
    "C01": "c01", "C02": "c02", "C03": "c03", "C04": "c04", "C05": "c05", "C06": "c06", "C07": "c07",
    "C08": "c08", "C09": "c09", "C10": "c10", "C11": "c11", "C12": "c12", "C13": "c13", "C15": "c15",
    "C17": "c17", "C18": "c18", "C19": "c19", "C20": "c20",
}


def load_rule(prop: str):
    if prop not in RULES:
        raise AnalysisError(f"no checker for {prop}")
    return importlib.import_module(f"ghverif.rules.{RULES[prop]}")


def run_check(prop: str, sources: dict, tier: str):
    mod = load_rule(prop)
    prog = Program(sources)
    res = mod.check(prog, tier)
    return mod, res


def main(argv=None) -> int:
    ap = argparse.ArgumentParser()
    ap.add_argument("prop")
    ap.add_argument("--tier", default=os.environ.get("VERIF_TIER", "quick"), choices=["quick", "thorough"])
    ap.add_argument("--replay", default=None)
    ap.add_argument("--root", default=None)
    ap.add_argument("--no-evidence", action="store_true")
    ap.add_argument("--jobs", type=int, default=int(os.environ.get("GHVERIF_JOBS", "16")))
    args = ap.parse_args(argv)
    prop = args.prop.upper()
    seed = int(os.environ.get("VERIF_SEED", "0") or 0)
    t0 = time.time()
    try:
        if args.root:
            os.environ["GHVERIF_REPO"] = args.root
        sources = load_sources()
        mod, res = run_check(prop, sources, args.tier)
    except AnalysisError as e:
        print(f"ANALYSIS-ERROR property={prop} {e}")
        return 2
    except Exception as e:  # analyser bug: fail closed, never a VIOLATION
        traceback.print_exc()
        print(f"ANALYSIS-ERROR property={prop} internal: {type(e).__name__}: {e}")
        return 2

    print(f"== {prop}: {getattr(mod, 'TITLE', '')}  (tier={args.tier}, repo={os.environ.get('GHVERIF_REPO', '/repo')})")
    print(f"   modules parsed: {len([k for k in sources if not k.startswith(('schema:', 'file:'))])}, "
          f"schemas: {len([k for k in sources if k.startswith('schema:')])}")
    print(f"   functions analysed ({len(res.functions)}): " + ", ".join(q.replace('ghedesigner.', '') for q in res.functions))
    if res.counts:
        print("   counts: " + ", ".join(f"{k}={v}" for k, v in sorted(res.counts.items())))
    for o in res.obligations if len(res.obligations) <= 60 else res.obligations[:60]:
        print(f"   [{'ok' if o.ok else 'FAIL'}] {o.rule}: {o.desc}" + (f"  @ {o.where}" if o.where else ""))
    if len(res.obligations) > 60:
        print(f"   ... {len(res.obligations) - 60} more obligations (see evidence file)")
    for n in res.notes:
        print(f"   note: {n}")

    ff = res.floor_failures()
    if ff:
        print(f"ANALYSIS-ERROR property={prop} vacuity guard: " + "; ".join(ff))
        return 2

    known = [k for k in report.load_known() if k.get("property") == prop and k.get("status") == "known"]
    known_keys = {k["key"]: k for k in known}
    new, listed = [], []
    for f in res.findings:
        (listed if f.key in known_keys else new).append(f)

    if args.replay:
        try:
            with open(args.replay, encoding="utf-8") as fh:
                want = json.load(fh)
        except Exception as e:
            print(f"ANALYSIS-ERROR property={prop} cannot read replay file: {e}")
            return 2
        hit = [f for f in res.findings if f.key == want.get("key")]
        if not hit:
            print(f"replay: the finding {want.get('key')} is NOT reproduced on the current tree")
            return 0
        for f in hit:
            print(f"replay: reproduced {f.rule} at {f.where} in {f.func}: {f.message}")
            print(json.dumps(f.details, indent=1, default=str))
            print(f"VIOLATION property={prop} replay={args.replay}")
        return 1

    selfval = None
    if args.tier == "thorough" and hasattr(mod, "VARIANTS"):
        from . import selftest

        try:
            selfval = selftest.run(prop, sources, {f.key for f in res.findings}, mod.VARIANTS, args.jobs)
        except Exception as e:
            traceback.print_exc()
            print(f"ANALYSIS-ERROR property={prop} self-validation crashed: {e}")
            return 2
        for line in selfval["lines"]:
            print("   " + line)

    for f in listed:
        print(f"KNOWN-FINDING: property={prop} {known_keys[f.key].get('what', f.message)} [{f.rule} @ {f.where}]")
    rc = 0
    for f in new:
        path = report.write_replay(f)
        print(f"   {f.rule} VIOLATED at {f.where} in {f.func}: {f.message}")
        for k, v in f.details.items():
            print(f"      {k}: {v}")
        print(f"VIOLATION property={prop} replay={path}")
        rc = 1

    wall = time.time() - t0
    if not args.no_evidence:
        extra = {"known_findings_listed": [f.key for f in listed], "new_findings": [f.as_dict() for f in new]}
        if selfval is not None:
            extra["self_validation"] = selfval["summary"]
        report.write_evidence(res, args.tier, seed, wall, getattr(mod, "EXPLANATION", ""),
                              getattr(mod, "ASSUMPTIONS", []), len(new), extra)
    if selfval is not None and selfval["failed"]:
        print(f"ANALYSIS-ERROR property={prop} self-validation failed: {selfval['failed']} variant(s) misjudged "
              f"(machinery problem, not a verdict on /repo)")
        return 2 if rc == 0 else rc
    print(f"== {prop}: {'HOLDS' if rc == 0 else 'VIOLATED'} on the analysed constructs "
          f"({sum(o.ok for o in res.obligations)}/{len(res.obligations)} obligations discharged, "
          f"{len(listed)} known finding(s), {wall:.2f}s)")
    return rc


if __name__ == "__main__":
    sys.exit(main())
