"""C12 - reported results are self-consistent and describe the returned design.

Decided:
  R12.1  single source: number of boreholes, bore-field rows, active length, total drilling and the
         max / min entering fluid temperatures of both summaries are read from one live object
         (design.ghe): gFunction.bore_locations, bhe.b.H, hp_eft
  R12.2  identity: total_drilling = active_borehole_length * number_of_boreholes (normal forms) in the JSON
         and the text summary
  R12.3  freshness (typestate): hp_eft / dTb are fresh(H) after simulate(); a later write to bhe.b.H makes
         them stale; at every exit of GHE.size() the last write of H is followed by a simulate(); the sizing
         objective simulates after it writes H; simulate() publishes the results of the run it just made on
         every returning path and returns their extremes; GHEManager.find_design ends with
         compute_g_functions -> size on the object it publishes and touches nothing afterwards
  R12.5  per-run state: the search log is a fresh per-object list; prepare_results() always reports the current search
  R12.4  search log: every row is [spec, cost(a, b), a, b] with (a, b) the extremes returned by simulate(),
         and cost has normal form max(a - max_allowed, min_allowed - b)

Not decided: that the numbers are right (numerical); content of the other summary fields.
"""
from __future__ import annotations

import ast

from .. import sym
from ..model import AnalysisError, Program, attr_chain, bind_args, norm_stmt, src_line
from ..paths import Engine, Hooks, Opaque, Seq, State, Const, describe_trail
from ..report import Result
from ..selftest import Variant
from ..sym import Rat

PROP = "C12"
TITLE = "Reported results are self-consistent and describe the returned design"
EXPLANATION = (
    "Typestate over the paths of GHE.size / its objective closure / GHE.simulate / GHEManager.find_design "
    "(events: write of bhe.b.H, simulate, publish hp_eft); normal-form identities and attribute-path agreement "
    "between the fields of the two summary builders and the bore-field table; shape of the search-log rows in both "
    "calculate_excess implementations and the normal form of BaseGHE.cost."
)
ASSUMPTIONS = ["solve_root may evaluate its objective in any order (no assumption on the last evaluation)"]

GHX = "ghedesigner.ground_heat_exchangers"
OUT = "ghedesigner.output"
SR = "ghedesigner.search_routines"
HCHAIN = "self.bhe.b.H"


class _SizeHooks(Hooks):
    def __init__(self, closures=None):
        self.closures = closures or {}

    def on_assign(self, key, val, stmt, st, eng):
        if key == HCHAIN:
            st.emit("HWRITE", val, stmt)

    def on_call(self, node, fname, args, kwargs, st, eng):
        if fname == "self.simulate":
            st.emit("SIM", None, node)
        if fname in self.closures and len(args) > self.closures[fname]:
            # the sizing objective: writes its trial height, simulates at it, returns the excess (checked on the closure itself below)
            st.emit("HWRITE", args[self.closures[fname]], node)
            st.emit("SIM", None, node)
            return sym._plain_call("OBJ", [args[self.closures[fname]]]) if isinstance(args[self.closures[fname]], Rat) else None
        return None


def _events_after_last_write(st: State):
    last = None
    for i, e in enumerate(st.events):
        if e.kind == "HWRITE":
            last = i
    return last, [e.kind for e in st.events[(last + 1) if last is not None else 0:]]


def check(prog: Program, tier: str) -> Result:
    res = Result(PROP)
    _check_freshness(prog, res)
    _check_summaries(prog, res)
    _check_search_log(prog, res)
    _check_per_run_state(prog, res)
    return res


def _check_per_run_state(prog: Program, res: Result):
    """R12.5: what is reported belongs to THIS run: the search log is a per-object list (not a class-level container shared by
    all searches), and prepare_results() builds the report from the current search every time (no keyless early return).
    Decided by the C13 machinery (R13.8 / R13.9), restricted to the objects the report is made of."""
    from . import c13

    tmp = Result("C13")
    c13._check_class_level_mutables(prog, tmp)
    c13._check_keyless_memos(prog, tmp)
    hit = False
    for f in tmp.findings:
        if "searchTracker" in f.key or "self.results" in f.key or "OutputManager" in f.key:
            hit = True
            res.violation("R12.5", f.key.split("|", 1)[-1], f.where, f.func, f.message + " - the summary / search log of a run then contains another run's data")
    # the search log must be created in the constructors of the search classes
    SRm = "ghedesigner.search_routines"
    n = 0
    for cq, c in sorted(prog.classes.items()):
        if not cq.startswith(SRm + ".") or "calculate_excess" not in c.methods:
            continue
        n += 1
        fresh = False
        for b in prog.mro(cq):
            init = b.methods.get("__init__")
            if init is not None and any(isinstance(x, ast.Assign) and any(attr_chain(t) == "self.searchTracker" for t in x.targets) and isinstance(x.value, ast.List) and not x.value.elts for x in ast.walk(init.node)):
                fresh = True
        res.ob("R12.5", f"{c.name}: the search log starts as a fresh empty list in the constructor", fresh, f"{c.module.replace('.', '/')}.py:{src_line(c.node)}")
        if not fresh and not hit:
            res.violation("R12.5", f"log-not-fresh|{cq}", f"{c.module.replace('.', '/')}.py:{src_line(c.node)}", cq, f"{c.name} does not start its search log as a fresh list: rows of other searches can appear in the report")
    if n < 2:
        raise AnalysisError("search classes with a search log not found")


def _check_freshness(prog: Program, res: Result):
    # ---- GHE.size
    q = f"{GHX}.GHE.size"
    fi = prog.func(q)
    res.analysed(q)
    from . import search_common as sc_

    eng = Engine(prog, fi, _SizeHooks(sc_.height_closures(fi.node)))
    st = State()
    for p in fi.params():
        st.env[p] = Rat.atom(p)
    finals = eng.run_function(st)
    res.count("size_paths", len(finals))
    res.floor("size_paths", 1)
    for f in finals:
        if f.exit is not None and f.exit[0] == "raise":
            continue
        last, after = _events_after_last_write(f)
        if last is None:
            raise AnalysisError(f"{q}: no write of {HCHAIN} on a returning path - shape not understood")
        ok = "SIM" in after
        node = f.events[last].node
        res.ob("R12.3", f"size(): the last write of bhe.b.H ({norm_stmt(node)}) is followed by simulate()", ok, prog.loc(fi, node))
        if not ok:
            res.violation("R12.3", f"size-exit-stale|{norm_stmt(node)}", prog.loc(fi, node), q,
                          f"size() ends with '{norm_stmt(node)}' and no simulate() after it: hp_eft / dTb belong to whatever height the "
                          f"solver evaluated last (stale when the height is clamped at a bound), while the summary reports them for the returned height",
                          path=describe_trail(f))
    # ---- the objective closure
    loc = [k for k in prog.funcs if k.startswith(q + ".<locals>.")]
    n_obj = 0
    for k in loc:
        sub = prog.funcs[k]
        e2 = Engine(prog, sub, _SizeHooks())
        s2 = State()
        for p in sub.params():
            s2.env[p] = Rat.atom(p)
        wrote = False
        for f in e2.run_function(s2):
            if f.exit is None or f.exit[0] != "return":
                continue
            last, after = _events_after_last_write(f)
            if last is None:
                continue
            wrote = True
            n_obj += 1
            ok = "SIM" in after
            res.ob("R12.3", f"{sub.name}(): simulates after writing the trial height", ok, prog.loc(sub, f.events[last].node))
            if not ok:
                res.violation("R12.3", f"objective-stale|{sub.name}", prog.loc(sub, f.events[last].node), k,
                              f"{sub.name}() writes bhe.b.H without simulating afterwards")
            # the value written is the closure's own argument
            val = f.events[last].data
            okv = isinstance(val, Rat) and sub.params() and val.equals(Rat.atom(sub.params()[0]))
            res.ob("R12.3", f"{sub.name}(): the height written is the trial value it was called with", okv, prog.loc(sub, f.events[last].node))
            if not okv:
                res.violation("R12.3", f"objective-height|{sub.name}", prog.loc(sub, f.events[last].node), k,
                              f"{sub.name}() writes {val} to bhe.b.H instead of its trial argument")
    res.count("objective_paths", n_obj)
    res.floor("objective_paths", 1)

    # ---- GHE.simulate publishes what it computed
    q = f"{GHX}.GHE.simulate"
    fi = prog.func(q)
    res.analysed(q)

    class SH(Hooks):
        def on_call(self, node, fname, args, kwargs, st, eng):
            if fname == "self._simulate_detailed":
                r = Seq([Rat.atom(f"EFT#{node.lineno}"), Rat.atom(f"DTB#{node.lineno}")], "tuple")
                st.emit("RUN", node.lineno, node)
                return r
            return None

    eng = Engine(prog, fi, SH())
    st = State()
    for p in fi.params():
        st.env[p] = Rat.atom(p)
    n_ret = 0
    for f in eng.run_function(st):
        if f.exit is None:
            res.violation("R12.3", "simulate-falls-off", prog.loc(fi, fi.node), q, "simulate() can end without returning the temperature extremes")
            continue
        if f.exit[0] != "return":
            continue
        n_ret += 1
        runs = [e.data for e in f.events if e.kind == "RUN"]
        sig = " & ".join(k for k, tr, ln in f.trail if tr)[:120]
        if len(runs) != 1:
            res.violation("R12.3", f"simulate-runs|{len(runs)}|{sig}", prog.loc(fi, f.exit[2]), q, f"simulate() returns after {len(runs)} detailed simulations on the path [{sig}]")
            continue
        eft, dtb = Rat.atom(f"EFT#{runs[0]}"), Rat.atom(f"DTB#{runs[0]}")
        ok = f.env.get("self.hp_eft") == eft and f.env.get("self.dTb") == dtb
        res.ob("R12.3", f"simulate() [{sig}]: publishes hp_eft / dTb of the run it just made", ok, prog.loc(fi, f.exit[2]))
        if not ok:
            res.violation("R12.3", f"simulate-publish|{sig}", prog.loc(fi, f.exit[2]), q,
                          f"on the path [{sig}] simulate() returns without storing the temperatures it just computed in self.hp_eft / self.dTb")
        rv = f.exit[1]
        want = [sym.call("max", [eft]), sym.call("min", [eft])]
        okr = isinstance(rv, Seq) and len(rv.items) == 2 and all(isinstance(x, Rat) for x in rv.items) and rv.items[0].equals(want[0]) and rv.items[1].equals(want[1])
        res.ob("R12.3", f"simulate() [{sig}]: returns (max, min) of the published temperatures", okr, prog.loc(fi, f.exit[2]))
        if not okr:
            res.violation("R12.3", f"simulate-return|{sig}", prog.loc(fi, f.exit[2]), q,
                          f"simulate() returns {rv.key() if hasattr(rv, 'key') else rv} instead of (max(hp_eft), min(hp_eft)) of the run it made")
        # times / loading published for the same run on the hybrid path are checked under C09
    res.count("simulate_return_paths", n_ret)
    res.floor("simulate_return_paths", 2)

    # ---- manager.find_design
    q = "ghedesigner.manager.GHEManager.find_design"
    fi = prog.func(q)
    res.analysed(q)

    class MH(Hooks):
        def on_call(self, node, fname, args, kwargs, st, eng):
            if fname and fname.startswith("self._search.ghe."):
                st.emit("GHE", fname.split(".")[-1], node)
            elif fname == "self._design.find_design":
                st.emit("SEARCH", None, node)
                return Rat.atom("SEARCH_RESULT")
            return None

        def on_assign(self, key, val, stmt, st, eng):
            if key.startswith("self._search") and not key.startswith("self._search_time"):
                st.emit("ASSIGN", (key, val), stmt)

    eng = Engine(prog, fi, MH())
    st = State()
    for p in fi.params():
        st.env[p] = Rat.atom(p)
    n_ok = 0
    for f in eng.run_function(st):
        if f.exit is None or f.exit[0] != "return":
            continue
        v = f.exit[1]
        if not (isinstance(v, Rat) and v.is_const() and v.const_value() == 0):
            continue
        n_ok += 1
        seq = [e.kind if e.kind != "GHE" else e.data for e in f.events if e.kind in ("SEARCH", "GHE", "ASSIGN")]
        ok = seq == ["SEARCH", "ASSIGN", "compute_g_functions", "size"]
        res.ob("R12.3", f"find_design: search -> publish -> compute_g_functions -> size, nothing after ({seq})", ok, prog.loc(fi, f.exit[2]))
        if not ok:
            res.violation("R12.3", f"find_design-protocol|{seq}", prog.loc(fi, f.exit[2]), q,
                          f"find_design's success path is {seq}; expected the search result to be published, given its multi-height g-function and sized last, "
                          f"so that the summary describes the sized design")
        asg = [e.data for e in f.events if e.kind == "ASSIGN"]
        if asg and not (asg[0][0] == "self._search" and asg[0][1] == Rat.atom("SEARCH_RESULT")):
            res.violation("R12.3", "find_design-publish", prog.loc(fi, f.exit[2]), q, "find_design does not publish the object returned by the design search")
    res.count("find_design_success_paths", n_ok)
    res.floor("find_design_success_paths", 1)
    pr = prog.func("ghedesigner.manager.GHEManager.prepare_results")
    calls = [n for n in ast.walk(pr.node) if isinstance(n, ast.Call) and attr_chain(n.func) == "OutputManager"]
    ok = len(calls) == 1 and calls[0].args and ast.unparse(calls[0].args[0]) == "self._search"
    res.ob("R12.3", "prepare_results builds the output from the published search object (self._search)", ok, prog.loc(pr, pr.node))
    if not ok:
        res.violation("R12.3", "prepare_results-source", prog.loc(pr, pr.node), pr.qualname, "OutputManager is not built from self._search")


# ---------------------------------------------------------------------------
def _dict_items(d: ast.Dict):
    for k, v in zip(d.keys, d.values):
        if isinstance(k, ast.Constant) and isinstance(k.value, str):
            yield k.value, v
            if isinstance(v, ast.Dict):
                yield from _dict_items(v)


def _unwrap_units(v: ast.expr) -> ast.expr:
    if isinstance(v, ast.Call) and attr_chain(v.func) == "add_with_units" and v.args:
        return v.args[0]
    return v


def _check_summaries(prog: Program, res: Result):
    q = f"{OUT}.OutputManager.get_summary_object"
    fi = prog.func(q)
    res.analysed(q)
    eng = Engine(prog, fi, Hooks())
    st = State()
    for p in fi.params():
        st.env[p] = Rat.atom(p)
    # straight-line locals needed by the result fields (max_eft = max(design.ghe.hp_eft) ...)
    for s in fi.node.body:  # every top-level assignment to locals, in order (temporaries, tuple results of helpers that were expanded at load time)
        if isinstance(s, ast.Assign) and len(s.targets) == 1 and all(isinstance(x, ast.Name) for x in (s.targets[0].elts if isinstance(s.targets[0], ast.Tuple) else [s.targets[0]])):
            try:
                eng._s_Assign(s, st)
            except AnalysisError:
                pass
    fields = {}
    for n in ast.walk(fi.node):
        if isinstance(n, ast.Dict):
            for k, v in _dict_items(n):
                fields.setdefault(k, v)
    need = ["active_borehole_length", "total_drilling", "number_of_boreholes", "max_hp_eft", "min_hp_eft"]
    for k in need:
        if k not in fields:
            raise AnalysisError(f"{q}: summary field '{k}' not found")
    val = {k: eng.eval(_unwrap_units(fields[k]), st) for k in need}
    H, N = val["active_borehole_length"], val["number_of_boreholes"]
    obj = "design.ghe"
    okH = isinstance(H, Rat) and H.equals(Rat.atom(f"{obj}.bhe.b.H"))
    okN = isinstance(N, Rat) and N.equals(sym.call("len", [Rat.atom(f"{obj}.gFunction.bore_locations")]))
    res.ob("R12.1", f"JSON summary: active_borehole_length is {obj}.bhe.b.H (got {_k(H)})", okH, prog.loc(fi, fields["active_borehole_length"]))
    res.ob("R12.1", f"JSON summary: number_of_boreholes is len({obj}.gFunction.bore_locations) (got {_k(N)})", okN, prog.loc(fi, fields["number_of_boreholes"]))
    if not okH:
        res.violation("R12.1", f"json-H|{_k(H)}", prog.loc(fi, fields["active_borehole_length"]), q, f"active_borehole_length is {_k(H)}, not the live object's height {obj}.bhe.b.H")
    if not okN:
        res.violation("R12.1", f"json-N|{_k(N)}", prog.loc(fi, fields["number_of_boreholes"]), q, f"number_of_boreholes is {_k(N)}, not the number of rows of {obj}.gFunction.bore_locations")
    T = val["total_drilling"]
    okT = isinstance(T, Rat) and isinstance(H, Rat) and isinstance(N, Rat) and T.equals(H * N)
    res.ob("R12.2", f"JSON summary: total_drilling = active_borehole_length * number_of_boreholes (got {_k(T)})", okT, prog.loc(fi, fields["total_drilling"]))
    if not okT:
        res.violation("R12.2", f"json-total|{_k(T)}", prog.loc(fi, fields["total_drilling"]), q, f"total_drilling is {_k(T)}, not active_borehole_length * number_of_boreholes")
    for k, fn in (("max_hp_eft", "max"), ("min_hp_eft", "min")):
        v = val[k]
        ok = isinstance(v, Rat) and v.equals(sym.call(fn, [Rat.atom(f"{obj}.hp_eft")]))
        res.ob("R12.1", f"JSON summary: {k} = {fn}({obj}.hp_eft) (got {_k(v)})", ok, prog.loc(fi, fields[k]))
        if not ok:
            res.violation("R12.1", f"json-{k}|{_k(v)}", prog.loc(fi, fields[k]), q, f"{k} is {_k(v)}, not {fn}() of the live object's temperatures")
    # bore-field rows
    q2 = f"{OUT}.OutputManager.get_borehole_location_data"
    f2 = prog.func(q2)
    res.analysed(q2)
    its = [n.iter for n in ast.walk(f2.node) if isinstance(n, (ast.For, ast.comprehension))]
    ok = len(its) == 1 and attr_chain(its[0]) == f"{obj}.gFunction.bore_locations"
    res.ob("R12.1", f"bore-field table iterates {obj}.gFunction.bore_locations", ok, prog.loc(f2, f2.node))
    if not ok:
        res.violation("R12.1", f"rows-source|{[ast.unparse(i) for i in its]}", prog.loc(f2, f2.node), q2,
                      f"the bore-field table iterates {[ast.unparse(i) for i in its]} while the summary counts {obj}.gFunction.bore_locations")
    # text summary
    q3 = f"{OUT}.OutputManager.get_summary_text"
    f3 = prog.func(q3)
    res.analysed(q3)
    e3 = Engine(prog, f3, Hooks())
    s3 = State()
    for p in f3.params():
        s3.env[p] = Rat.atom(p)
    for s in f3.node.body:
        if isinstance(s, ast.Assign) and len(s.targets) == 1 and all(isinstance(x, ast.Name) for x in (s.targets[0].elts if isinstance(s.targets[0], ast.Tuple) else [s.targets[0]])):
            try:
                e3._s_Assign(s, s3)
            except AnalysisError:
                pass
    rows = {}
    for n in ast.walk(f3.node):
        if isinstance(n, ast.Call) and attr_chain(n.func) == "self.d_row" and len(n.args) >= 3 and isinstance(n.args[1], ast.Constant):
            rows[str(n.args[1].value)] = n.args[2]
    want = {"Active Borehole Length": Rat.atom(f"{obj}.bhe.b.H"),
            "NBH": sym.call("len", [Rat.atom(f"{obj}.gFunction.bore_locations")]),
            "Total Drilling": Rat.atom(f"{obj}.bhe.b.H") * sym.call("len", [Rat.atom(f"{obj}.gFunction.bore_locations")]),
            "Max HP EFT, C": sym.call("max", [Rat.atom(f"{obj}.hp_eft")]),
            "Min HP EFT, C": sym.call("min", [Rat.atom(f"{obj}.hp_eft")])}
    for label, w in want.items():
        hit = [(k, v) for k, v in rows.items() if k.startswith(label)]
        if len(hit) != 1:
            raise AnalysisError(f"{q3}: text row '{label}' not found")
        v = e3.eval(hit[0][1], s3)
        ok = isinstance(v, Rat) and v.equals(w)
        rule = "R12.2" if label == "Total Drilling" else "R12.1"
        res.ob(rule, f"text summary: '{hit[0][0]}' is {w.key()} (got {_k(v)})", ok, prog.loc(f3, hit[0][1]))
        if not ok:
            res.violation(rule, f"text-{label}|{_k(v)}", prog.loc(f3, hit[0][1]), q3, f"the text summary's '{hit[0][0]}' is {_k(v)}, expected {w.key()}")


def _k(v):
    return v.key() if hasattr(v, "key") else str(v)


# ---------------------------------------------------------------------------
def _check_search_log(prog: Program, res: Result):
    for cls in ("Bisection1D", "RowWiseModifiedBisectionSearch"):
        q = f"{SR}.{cls}.calculate_excess"
        fi = prog.func(q)
        res.analysed(q)

        class H(Hooks):
            def on_call(self, node, fname, args, kwargs, st, eng):
                if fname == "self.ghe.simulate":
                    st.emit("SIM", None, node)
                    return Seq([Rat.atom("SIM_MAX"), Rat.atom("SIM_MIN")], "tuple")
                if fname == "self.ghe.cost" and len(args) == 2 and all(isinstance(a, Rat) for a in args):
                    return sym._plain_call("COST", list(args))
                if fname == "self.searchTracker.append" and len(args) == 1:
                    st.emit("ROW", args[0], node)
                    return Const(None)
                return None

        eng = Engine(prog, fi, H())
        st = State()
        for p in fi.params():
            st.env[p] = Rat.atom(p)
        n_rows = 0
        for f in eng.run_function(st):
            if f.exit is None or f.exit[0] != "return":
                continue
            rows = [e for e in f.events if e.kind == "ROW"]
            for e in rows:
                n_rows += 1
                r = e.data
                want_cost = sym._plain_call("COST", [Rat.atom("SIM_MAX"), Rat.atom("SIM_MIN")])
                ok = (isinstance(r, Seq) and len(r.items) == 4 and isinstance(r.items[1], Rat) and r.items[1].equals(want_cost)
                      and r.items[2] == Rat.atom("SIM_MAX") and r.items[3] == Rat.atom("SIM_MIN")
                      and isinstance(r.items[0], Rat) and r.items[0].equals(Rat.atom("field_specifier")))
                res.ob("R12.4", f"{cls}.calculate_excess: log row is [field_specifier, cost(max, min), max, min] of the simulation just made", ok, prog.loc(fi, e.node))
                if not ok:
                    res.violation("R12.4", f"{cls}|row|{_k(r)[:120]}", prog.loc(fi, e.node), q,
                                  f"the search-log row is {_k(r)[:200]}; expected [field_specifier, cost(max_eft, min_eft), max_eft, min_eft] from one simulate() call")
            rv = f.exit[1]
            okr = isinstance(rv, Rat) and rv.equals(sym._plain_call("COST", [Rat.atom("SIM_MAX"), Rat.atom("SIM_MIN")]))
            res.ob("R12.4", f"{cls}.calculate_excess: returns the logged excess", okr, prog.loc(fi, f.exit[2]))
            if not okr:
                res.violation("R12.4", f"{cls}|return|{_k(rv)[:80]}", prog.loc(fi, f.exit[2]), q, f"calculate_excess returns {_k(rv)[:120]} instead of the excess it logged")
            if not rows:
                res.violation("R12.4", f"{cls}|no-row", prog.loc(fi, fi.node), q, "calculate_excess evaluates a candidate without logging it")
        res.count("log_rows", n_rows)
    res.floor("log_rows", 2)
    # cost normal form
    q = f"{GHX}.BaseGHE.cost"
    fi = prog.func(q)
    res.analysed(q)
    eng = Engine(prog, fi, Hooks())
    st = State()
    for p in fi.params():
        st.env[p] = Rat.atom(p)
    fin = [f for f in eng.run_function(st) if f.exit and f.exit[0] == "return"]
    if not fin or len(fin) > 16:
        raise AnalysisError(f"{q}: {len(fin)} return paths")
    ps = [p for p in fi.params() if p != "self"]
    a, b = Rat.atom(ps[0]), Rat.atom(ps[1])
    d1, d2 = a - Rat.atom("self.sim_params.max_EFT_allowable"), Rat.atom("self.sim_params.min_EFT_allowable") - b
    want = sym.call("max", [d1, d2])
    for f in fin:
        rv = f.exit[1]
        # on this path the returned value is the larger of the two excesses: max(...) itself, or one of them when the path has
        # established that it is not smaller than the other
        ok = isinstance(rv, Rat) and rv.equals(want)
        if not ok and isinstance(rv, Rat):
            if rv.equals(d1):
                ok = f.sign_of(d1 - d2) <= frozenset("+0")
            elif rv.equals(d2):
                ok = f.sign_of(d2 - d1) <= frozenset("+0")
        trail = " & ".join(k for k, tr, ln in f.trail)[:100]
        res.ob("R12.4", f"cost(max_eft, min_eft) = max(max_eft - max_allowed, min_allowed - min_eft) (got {_k(rv)[:60]}{' on [' + trail + ']' if trail else ''})", ok, prog.loc(fi, f.exit[2]))
        if not ok:
            res.violation("R12.4", f"cost|{_k(rv)[:120]}", prog.loc(fi, f.exit[2]), q,
                          f"the excess is {_k(rv)[:200]}{' on the path [' + trail + ']' if trail else ''}, not max(max_eft - max_EFT_allowable, min_EFT_allowable - min_eft): "
                          "a log row (and the search) then carries the smaller of the two violations")

VARIANTS = [
    Variant("cost returns the first violated limit instead of the worse one (seeded C12_e)", "break",
            [(GHX, "        t_excess = max(delta_t_max, delta_t_min)\n        return t_excess\n", "        if delta_t_max > 0.0:\n            return delta_t_max\n        if delta_t_min > 0.0:\n            return delta_t_min\n        return max(delta_t_max, delta_t_min)\n")], "R12.4"),
    Variant("cost written as a comparison instead of max()", "benign",
            [(GHX, "        t_excess = max(delta_t_max, delta_t_min)\n        return t_excess\n", "        if delta_t_max >= delta_t_min:\n            return delta_t_max\n        return delta_t_min\n")]),
    Variant("size() no longer re-simulates at the returned height (repaired defect F7 returns)", "break",
            [(GHX, "        self.bhe.b.H = returned_height\n        # the solver's last evaluation need not be at the returned height (e.g. when it is clamped\n        # at a bound): leave the object with the temperatures of the height it reports\n        self.simulate(method=method)\n",
              "        self.bhe.b.H = returned_height\n")], "R12.3"),
    Variant("number_of_boreholes from the search's selected coordinates", "break",
            [(OUT, "                'number_of_boreholes': len(design.ghe.gFunction.bore_locations),", "                'number_of_boreholes': len(design.selected_coordinates),")], "R12.1"),
    Variant("total_drilling uses the maximum height", "break",
            [(OUT, "'total_drilling': add_with_units(design.ghe.bhe.b.H * len(design.ghe.gFunction.bore_locations), 'm'),",
              "'total_drilling': add_with_units(design.ghe.sim_params.max_height * len(design.ghe.gFunction.bore_locations), 'm'),")], "R12.2"),
    Variant("log row stores (excess, min, max)", "break",
            [(SR, "        self.searchTracker.append([field_specifier, t_excess, max_hp_eft, min_hp_eft])\n\n        return t_excess\n\n    def search(self):\n        x_l_idx = 0",
              "        self.searchTracker.append([field_specifier, t_excess, min_hp_eft, max_hp_eft])\n\n        return t_excess\n\n    def search(self):\n        x_l_idx = 0")], "R12.4"),
    Variant("cost uses min instead of max", "break",
            [(GHX, "        t_excess = max(delta_t_max, delta_t_min)", "        t_excess = min(delta_t_max, delta_t_min)")], "R12.4"),
    Variant("simulate() forgets to publish dTb on the hybrid path", "break",
            [(GHX, "        self.hp_eft = hp_eft\n        self.dTb = d_tb\n", "        self.hp_eft = hp_eft\n        if method == TimestepType.HOURLY:\n            self.dTb = d_tb\n")], "R12.3"),
    Variant("find_design sizes before computing the multi-height g-functions", "break",
            [("ghedesigner.manager", "        self._search.ghe.compute_g_functions()\n        self._search_time = time() - start_time\n        self._search.ghe.size(method=TimestepType.HYBRID)",
              "        self._search.ghe.size(method=TimestepType.HYBRID)\n        self._search_time = time() - start_time\n        self._search.ghe.compute_g_functions()")], "R12.3"),
    Variant("text summary: total drilling from nbh attribute of another object", "break",
            [(OUT, "            width, \"Total Drilling, m:\", design.ghe.bhe.b.H * len(design.ghe.gFunction.bore_locations), f_int",
              "            width, \"Total Drilling, m:\", design.ghe.bhe.b.H * len(design.coordinates_domain[0]), f_int")], "R12.2"),
    Variant("local alias for design.ghe in the JSON summary", "benign",
            [(OUT, "                'active_borehole_length': add_with_units(design.ghe.bhe.b.H, 'm'),", "                'active_borehole_length': add_with_units(1.0 * design.ghe.bhe.b.H, 'm'),")]),
    Variant("objective closure uses a temporary", "benign",
            [(GHX, "            self.bhe.b.H = h\n            max_hp_eft, min_hp_eft = self.simulate(method=method)\n            t_excess = self.cost(max_hp_eft, min_hp_eft)\n            return t_excess",
              "            trial = h\n            self.bhe.b.H = trial\n            extremes = self.simulate(method=method)\n            return self.cost(extremes[0], extremes[1])")]),
]
