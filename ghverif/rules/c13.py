"""C13 - results are deterministic and independent of call history.

Decided:
  R13.1  carried state: for GHE.simulate / GHE.size / BaseGHE.compute_g_functions and every method they
         reach (on their own object or on objects held in attributes, resolved through constructor
         typing), no attribute is both read upward-exposed and written by the same call set, except the
         frozen accept table (one reason each): the borehole height (the explicit input of a
         simulation), the interpolation memo of GFunction, the g-function rebuilt from its own fields
  R13.2  mutable defaults: a list / dict / set default argument is only ever read (subscripted, iterated,
         passed on to a parameter that is itself only read)
  R13.12 a table or a single value built on first use is emptied / dropped by whatever re-assigns the attributes it was built from
  R13.11 every success path of GHEManager.set_design builds a new design object from the manager's current inputs and stores
         it (the design keeps its own references to the input objects, which every setter replaces)
  R13.10 no stale derived state (a method replaces an attribute and leaves behind what the constructor computed from it; the
         three deliberate cases are listed with their reason), no memoised return under a key that leaves out a parameter
  R13.3  no function rebinds or mutates a module-level name
  R13.4  sources of non-determinism (wall clock, random, id / hash, set iteration, environment) occur
         only at the two recorded sites: search time in GHEManager.find_design and the time stamp of the
         output summaries
  R13.5  setters commute: no GHEManager setter reads an attribute that another setter writes
         (set_design, which snapshots the configuration, and the pipe setters' use of pipe_type excepted)
  R13.7  no function changes a container parameter in place when a call site hands it stored state (attribute,
         element of an attribute container, module-level container, or what a callee returns from those); frozen
         accept table for the diagnostic logs
  R13.8  class-level containers are rebound per instance before any method changes them in place
  R13.9  keyless memos (`if self.x is not None: return`): every method that writes what the producer reads resets self.x
  R13.6  the nominal borehole height is dead: on every path of the search classes the first use of the
         live GHE object is preceded by initialize_ghe / calculate_excess, which set an explicit height

Not decided: bit-identical results of numpy / scipy / pygfunction for identical inputs (trusted).
"""
from __future__ import annotations

import ast

from ..effects import EffectAnalyzer, carried
from ..model import AnalysisError, Program, attr_chain, norm_stmt, src_line, walk_no_nested
from ..paths import Engine, Hooks, State
from ..report import Result
from ..selftest import Variant
from ..sym import Rat

PROP = "C13"
TITLE = "Results are deterministic and independent of call history"
EXPLANATION = (
    "Effect analysis (E5): per method, attribute chains on self that are read before any write on some path "
    "(upward-exposed) and the chains the call set writes; their intersection is state carried between calls.  "
    "Roots are the simulation / sizing entry points, closed under self-calls, closures passed as callbacks and "
    "calls on attribute objects whose class is inferred from constructors.  Plus package-wide scans: mutable default "
    "arguments (escape / mutation), writes to module-level names, non-determinism sources against a frozen site "
    "table, read/write sets of the manager's setters, and a first-use path rule for the nominal height."
)
ASSUMPTIONS = [
    "numpy / scipy / pygfunction are deterministic functions of their arguments",
    "pygfunction's own caches (_initialize_stored_coefficients) are keyed on the object's fields",
]

GHX = "ghedesigner.ground_heat_exchangers"
ROOTS = [f"{GHX}.GHE.simulate", f"{GHX}.GHE.size", f"{GHX}.BaseGHE.compute_g_functions"]

# (class short name, chain) -> reason
ACCEPT = {
    ("GHE", "self.bhe.b.H"): "the borehole height is the explicit input of a simulation ('simulating a given field at a given height')",
    ("BaseGHE", "self.bhe.b.H"): "same: height input",
    ("GFunction", "self.interpolation_table"): "memo built on first use from constructor data (g_lts, r_b_values, log_time) only",
    ("GHE", "self.gFunction.interpolation_table"): "the same memo seen through the owning object (built from the g-function's own constructor data only)",
    ("BaseGHE", "self.gFunction.interpolation_table"): "same",
    ("BaseGHE", "self.gFunction.bore_locations"): "compute_g_functions rebuilds the g-function from its own bore_locations / log_time, which it passes through unchanged",
    ("BaseGHE", "self.gFunction.log_time"): "same: passed through unchanged",
    ("GHE", "self.gFunction.bore_locations"): "same (inherited method)",
    ("GHE", "self.gFunction.log_time"): "same (inherited method)",
}

NONDET_CALLS = {"time", "time.time", "datetime.now", "datetime.datetime.now", "datetime.today", "random.random", "random.choice",
                "random.shuffle", "random.randint", "uuid.uuid4", "os.urandom", "id", "hash", "os.getenv", "np.random.rand",
                "np.random.random", "np.random.default_rng", "time.perf_counter", "time.monotonic", "perf_counter", "monotonic"}
NONDET_SITES = {
    "ghedesigner.manager.GHEManager.find_design": "search wall-clock time -> simulation_runtime field only",
    "ghedesigner.output.OutputManager.get_summary_object": "time stamp field of the JSON summary",
    "ghedesigner.output.OutputManager.get_summary_text": "time stamp line of the text summary",
}


def _attr_types(prog: Program, cls_q: str):
    """attribute -> [class qualnames] from constructors along the MRO"""
    out = {}
    for c in prog.mro(cls_q):
        init = c.methods.get("__init__")
        if not init:
            continue
        ann = {a.arg: a.annotation for a in init.node.args.args + init.node.args.kwonlyargs if a.annotation is not None}
        for n in ast.walk(init.node):
            if isinstance(n, (ast.Assign, ast.AnnAssign)):
                tgs = n.targets if isinstance(n, ast.Assign) else [n.target]
                v = n.value
                for t in tgs:
                    ch = attr_chain(t)
                    if not ch or not ch.startswith("self.") or ch.count(".") != 1 or v is None:
                        continue
                    tys = _types_of(prog, init.module, v, ann)
                    if tys:
                        out.setdefault(ch, [])
                        for ty in tys:
                            if ty not in out[ch]:
                                out[ch].append(ty)
    return out


def _types_of(prog, module, v, ann):
    if isinstance(v, ast.Call):
        fn = attr_chain(v.func)
        if fn:
            r = prog.resolve_name(module, fn.split(".")[0]) if "." not in fn else None
            if r and r[0] == "class":
                return [r[1].qualname]
            if r and r[0] == "func":
                outs = []
                for ret in ast.walk(r[1].node):
                    if isinstance(ret, ast.Return) and isinstance(ret.value, ast.Call):
                        f2 = attr_chain(ret.value.func)
                        rr = prog.resolve_name(r[1].module, f2) if f2 and "." not in f2 else None
                        if rr and rr[0] == "class" and rr[1].qualname not in outs:
                            outs.append(rr[1].qualname)
                return outs
            if fn.startswith("self.") and fn.endswith(".to_single"):
                return ["ghedesigner.borehole_heat_exchangers.SingleUTube"]
    if isinstance(v, ast.Name) and v.id in ann:
        a = ann[v.id]
        names = [n.id for n in ast.walk(a) if isinstance(n, ast.Name)]
        outs = []
        for nm in names:
            r = prog.resolve_name(module, nm)
            if r and r[0] == "class":
                outs.append(r[1].qualname)
        return outs
    return []


def check(prog: Program, tier: str) -> Result:
    res = Result(PROP)
    _types_memo = {}

    def types_of(cls_q):
        if cls_q not in _types_memo:
            _types_memo[cls_q] = _attr_types(prog, cls_q)
        return _types_memo[cls_q]

    ea = EffectAnalyzer(prog, attr_types=types_of)

    # ---------------- R13.1
    work = []
    for q in ROOTS:
        fi = prog.func(q)
        work.append((f"{fi.module}.{fi.cls}", fi))
    # GHE inherits BaseGHE.compute_g_functions: analyse it on GHE as well
    seen = set()
    per_class = {}
    order = []
    while work:
        cls_q, fi = work.pop(0)
        key = (cls_q, fi.qualname)
        if key in seen or fi.name == "__init__":
            continue
        seen.add(key)
        eff = ea.method(fi)
        per_class.setdefault(cls_q, []).append((fi, eff))
        order.append(key)
        res.analysed(fi.qualname)
        # self-callees are inside the summary already; follow calls on attribute objects
        types = _attr_types(prog, cls_q)
        for recv, meth, node in eff.foreign:
            base = ".".join(recv.split(".")[:2])
            for ty in types.get(base, []) if recv.count(".") == 1 else []:
                m = prog.method(ty, meth)
                if m is not None:
                    work.append((ty, m))
        # foreign calls made by self-callees are part of the summary's `foreign` list already
    res.count("methods_in_call_set", len(seen))
    res.floor("methods_in_call_set", 9)
    for cls_q, lst in per_class.items():
        short = cls_q.split(".")[-1]
        all_w = {}
        for fi, eff in lst:
            for c, nd in eff.may_write.items():
                all_w.setdefault(c, (fi, nd))
        reported_chains = set()
        for fi, eff in lst:
            car = {}
            for r, rn in eff.exposed.items():
                for w, (wfi, wn) in all_w.items():
                    if r == w or r.startswith(w + ".") or r.startswith(w + "["):
                        car[r] = (rn, w, wfi, wn)
                        break
            for chain, (rn, w, wfi, wn) in sorted(car.items()):
                acc = ACCEPT.get((short, chain))
                res.count("carried_candidates")
                if acc:
                    res.ob("R13.1", f"{short}.{fi.name}: reads {chain} written by {wfi.name} - accepted: {acc}", True, prog.loc(fi, fi.node))
                    continue
                if (chain, wfi.name) in reported_chains:
                    continue
                reported_chains.add((chain, wfi.name))
                res.ob("R13.1", f"{short}.{fi.name}: no state carried through {chain}", False, prog.loc(fi, rn) if hasattr(rn, "lineno") else prog.loc(fi, fi.node))
                res.violation("R13.1", f"{short}|{chain}<-{wfi.name}", prog.loc(fi, rn) if hasattr(rn, "lineno") else prog.loc(fi, fi.node), fi.qualname,
                              f"{chain} is read before any write on some path of {fi.name}() and written by {wfi.name}() "
                              f"({prog.loc(wfi, wn)}): the result depends on what was called before",
                              written_at=prog.loc(wfi, wn))
            if not car:
                res.ob("R13.1", f"{short}.{fi.name}: no attribute is both upward-exposed and written by the call set "
                                f"({len(eff.exposed)} exposed reads, {len(eff.may_write)} writes)", True, prog.loc(fi, fi.node))
    # the accepted rebuild in compute_g_functions must really pass the two fields through
    cg = prog.func(f"{GHX}.BaseGHE.compute_g_functions")
    calls = [n for n in ast.walk(cg.node) if isinstance(n, ast.Call) and attr_chain(n.func) == "calc_g_func_for_multiple_lengths"]
    if len(calls) != 1:
        raise AnalysisError(f"{cg.qualname}: call of calc_g_func_for_multiple_lengths not found")
    from ..model import bind_args

    b = bind_args(prog.func("ghedesigner.gfunction.calc_g_func_for_multiple_lengths"), calls[0])
    eng = Engine(prog, cg, Hooks())
    st = State()
    for s in cg.node.body:
        if isinstance(s, ast.Assign):
            eng._s_Assign(s, st)
    okc = eng.eval(b["coordinates"], st) == Rat.atom("self.gFunction.bore_locations") and eng.eval(b["log_time"], st) == Rat.atom("self.gFunction.log_time")
    res.ob("R13.1", "compute_g_functions passes its own bore_locations and log_time through to the rebuilt g-function", okc, prog.loc(cg, calls[0]))
    if not okc:
        res.violation("R13.1", "rebuild-passthrough", prog.loc(cg, calls[0]), cg.qualname,
                      "compute_g_functions rebuilds the g-function from something other than its own bore_locations / log_time")

    _check_mutable_defaults(prog, res)
    _check_globals_and_nondeterminism(prog, res)
    _check_param_mutation(prog, res)
    _check_class_level_mutables(prog, res)
    _check_keyless_memos(prog, res)
    _check_stale_and_memo(prog, res)
    _check_design_rebuilt(prog, res)
    _check_lazy_tables(prog, res)
    _check_decorator_memos(prog, res)
    _check_setters(prog, res, ea)
    _check_nominal_height(prog, res)
    return res


# ---------------------------------------------------------------------------
def _param_only_read(prog: Program, fi, pname: str, depth: int = 0):
    """None if the parameter is only read; else (node, why)"""
    for n in walk_no_nested(fi.node):
        if isinstance(n, ast.Name) and n.id == pname and isinstance(n.ctx, ast.Store):
            continue
    parents = {}
    for n in ast.walk(fi.node):
        for c in ast.iter_child_nodes(n):
            parents[id(c)] = n
    for n in ast.walk(fi.node):
        if not (isinstance(n, ast.Name) and n.id == pname and isinstance(n.ctx, ast.Load)):
            continue
        p = parents.get(id(n))
        if isinstance(p, ast.Subscript) and p.value is n:
            if isinstance(p.ctx, ast.Load):
                continue
            return p, "an element of the default object is assigned"
        if isinstance(p, ast.Attribute) and p.value is n:
            gp = parents.get(id(p))
            if isinstance(gp, ast.Call) and gp.func is p:
                if p.attr in ("append", "extend", "pop", "insert", "clear", "remove", "sort", "reverse", "update", "setdefault", "add"):
                    return gp, f"the default object is mutated by .{p.attr}()"
                continue
            continue
        if isinstance(p, ast.Call) and (n in p.args or any(k.value is n for k in p.keywords)):
            cn = attr_chain(p.func)
            if cn in ("len", "list", "tuple", "sorted", "enumerate", "zip", "sum", "max", "min", "print", "str", "repr", "any", "all", "isinstance"):
                continue
            # passed on: the receiving parameter must be read-only too
            r = prog.resolve_name(fi.module, cn) if cn and "." not in cn else None
            callee = None
            if r and r[0] == "func":
                callee = r[1]
            elif r and r[0] == "class":
                callee = r[1].methods.get("__init__")
            if callee is not None and depth < 4:
                from ..model import bind_args

                b = bind_args(callee, p)
                recv = [k for k, v in b.items() if v is n]
                if recv:
                    sub = _param_only_read(prog, callee, recv[0], depth + 1)
                    if sub is None:
                        continue
                    return sub[0], f"passed to {callee.qualname}({recv[0]}) where {sub[1]}"
            return p, f"the default object escapes into {cn or ast.unparse(p.func)}(...)"
        if isinstance(p, (ast.For, ast.comprehension)) and getattr(p, "iter", None) is n:
            continue
        if isinstance(p, ast.Compare) or isinstance(p, ast.BoolOp) or isinstance(p, ast.UnaryOp) or isinstance(p, ast.If) or isinstance(p, ast.IfExp):
            continue
        if isinstance(p, ast.Return):
            return p, "the default object is returned"
        if isinstance(p, (ast.Assign, ast.AnnAssign)) and getattr(p, "value", None) is n:
            tg = p.targets if isinstance(p, ast.Assign) else [p.target]
            return p, f"the default object is stored in {', '.join(ast.unparse(t) for t in tg)}"
        if isinstance(p, ast.AugAssign):
            return p, "the default object is updated in place"
        if isinstance(p, ast.keyword):
            gp = parents.get(id(p))
            if isinstance(gp, ast.Call):
                cn = attr_chain(gp.func)
                r = prog.resolve_name(fi.module, cn) if cn and "." not in cn else None
                callee = r[1] if r and r[0] == "func" else (r[1].methods.get("__init__") if r and r[0] == "class" else None)
                if callee is not None and depth < 4 and p.arg in callee.params():
                    sub = _param_only_read(prog, callee, p.arg, depth + 1)
                    if sub is None:
                        continue
                    return sub[0], f"passed to {callee.qualname}({p.arg}) where {sub[1]}"
                return gp, f"the default object escapes into {cn or '?'}(...)"
        return p if p is not None else n, f"the default object is used in a way the rule cannot prove read-only ({type(p).__name__})"
    return None


def _check_mutable_defaults(prog: Program, res: Result):
    n = 0
    for q, fi in sorted(prog.funcs.items()):
        if "<locals>" in q:
            continue
        for pname, d in fi.defaults().items():
            if isinstance(d, (ast.List, ast.Dict, ast.Set)) or (isinstance(d, ast.Call) and attr_chain(d.func) in ("list", "dict", "set")):
                n += 1
                bad = _param_only_read(prog, fi, pname)
                res.ob("R13.2", f"{q}({pname}={ast.unparse(d)}): the shared default object is only read", bad is None, prog.loc(fi, d))
                if bad is not None:
                    node, why = bad
                    res.violation("R13.2", f"{q}|{pname}|{why[:60]}", prog.loc(fi, node) if hasattr(node, "lineno") else prog.loc(fi, d), q,
                                  f"mutable default {pname}={ast.unparse(d)} is shared between calls and {why}")
    res.count("mutable_defaults", n)
    # no floor: a tree without mutable defaults satisfies the rule (the break variants of the thorough tier show that it fires);
    # what must not shrink is the set of functions whose defaults were looked at
    res.ob("R13.2", f"defaults of every package function examined ({n} mutable default objects found)", True, "ghedesigner/")


# (function, parameter) -> reason: container parameters that receive stored state and are extended in place by design
PARAM_MUTATION_ACCEPT = {
    ("perform_current_month_simulation", "two_day_fluid_temps_pk"): "diagnostic log of the two-day responses of the HybridLoad object under construction; written once per month by its constructor, never read by the computation",
    ("perform_current_month_simulation", "two_day_fluid_temps_nm"): "same: diagnostic log",
}


def _check_class_level_mutables(prog: Program, res: Result):
    """R13.8: a list / dict / set written in a CLASS body is one object shared by every instance.  If a method changes it in
    place through self.<a> and no constructor of the class (or of a base) rebinds self.<a> first, every instance - every
    design run of the process - appends to the same object.  Likewise a method that assigns an attribute of a CLASS
    (`SomeClass.attr = value`, `type(self).attr = value`, `cls.attr = value`) leaves state behind for every other instance."""
    from ..model import MUTATORS

    class_names = {c.name for c in prog.classes.values()}
    for q_, f_ in sorted(prog.funcs.items()):
        for n_ in walk_no_nested(f_.node):
            tgts = n_.targets if isinstance(n_, ast.Assign) else ([n_.target] if isinstance(n_, ast.AugAssign) else [])
            for t_ in tgts:
                if not isinstance(t_, ast.Attribute):
                    continue
                base = t_.value
                on_class = (isinstance(base, ast.Name) and base.id in class_names and prog.resolve_name(f_.module, base.id) is not None and prog.resolve_name(f_.module, base.id)[0] == "class") \
                    or (isinstance(base, ast.Name) and base.id == "cls") \
                    or (isinstance(base, ast.Call) and attr_chain(base.func) == "type") \
                    or (isinstance(base, ast.Attribute) and base.attr == "__class__")
                if on_class:
                    res.ob("R13.8", f"{q_}: assigns the class attribute {ast.unparse(t_)[:50]}", False, prog.loc(f_, n_))
                    res.violation("R13.8", f"class-attribute-store|{q_}|{ast.unparse(t_)[:50]}", prog.loc(f_, n_), q_,
                                  f"'{norm_stmt(n_)[:80]}' assigns an attribute of a class from inside a function: the value is seen by every other instance afterwards, "
                                  "so a result depends on which objects were used before in the same process")
    n_cls = 0
    for cq, c in sorted(prog.classes.items()):
        n_cls += 1
        shared = {}
        for st_ in c.node.body:
            tgt = val = None
            if isinstance(st_, ast.Assign) and len(st_.targets) == 1 and isinstance(st_.targets[0], ast.Name):
                tgt, val = st_.targets[0].id, st_.value
            elif isinstance(st_, ast.AnnAssign) and isinstance(st_.target, ast.Name) and st_.value is not None:
                tgt, val = st_.target.id, st_.value
            if tgt and (isinstance(val, (ast.List, ast.Dict, ast.Set)) or (isinstance(val, ast.Call) and attr_chain(val.func) in ("list", "dict", "set"))):
                shared[tgt] = st_
        if not shared:
            continue
        # classes whose instances see this attribute: the class and its subclasses
        family = [k for k in prog.classes.values() if any(b is c for b in prog.mro(f"{k.module}.{k.name}"))] if hasattr(prog, "mro") else [c]
        for a, st_ in shared.items():
            rebound_in_init = False
            for k in family:
                for b in prog.mro(f"{k.module}.{k.name}"):
                    init = b.methods.get("__init__")
                    if init is not None and any(isinstance(n, ast.Assign) and any(attr_chain(t) == f"self.{a}" for t in n.targets) for n in ast.walk(init.node)):
                        rebound_in_init = True
            muts = []
            for k in family:
                for m in k.methods.values():
                    for n in ast.walk(m.node):
                        if isinstance(n, ast.Call) and isinstance(n.func, ast.Attribute) and n.func.attr in MUTATORS and attr_chain(n.func.value) == f"self.{a}":
                            muts.append((m, n))
                        if isinstance(n, (ast.Assign, ast.AugAssign)):
                            for t in (n.targets if isinstance(n, ast.Assign) else [n.target]):
                                if isinstance(t, ast.Subscript) and attr_chain(t.value) == f"self.{a}":
                                    muts.append((m, n))
            ok = rebound_in_init or not muts
            res.ob("R13.8", f"{c.name}.{a}: the class-level container is rebound per instance before it is changed in place (or never changed)", ok, f"{c.module.replace('.', '/')}.py:{src_line(st_)}")
            if not ok:
                m, n = muts[0]
                res.violation("R13.8", f"{cq}|{a}", prog.loc(m, n), m.qualname,
                              f"{c.name}.{a} is a class-level {type(st_.value).__name__.lower() if hasattr(st_, 'value') else 'container'} that {m.name}() changes in place and no constructor rebinds: all instances share it, "
                              "so what one design run records shows up in the next one")
    res.count("classes_scanned", n_cls)


def _check_lazy_tables(prog: Program, res: Result):
    """R13.12: a table an object builds on first use (`if len(self.T) == 0: self.T[...] = <from self.A, self.B>`) stays valid
    only while A and B are what they were: every assignment of those attributes - from inside the class or, through another
    object, from outside (`x.gFunction.g_lts = ...`) - other than in the constructor must empty or replace the table in the
    same function."""
    n_tab = 0
    for cq, c in sorted(prog.classes.items()):
        for mname, m in c.methods.items():
            for n in walk_no_nested(m.node):
                if not isinstance(n, ast.If):
                    continue
                t = n.test
                T = None
                # len(self.T) == 0 | not self.T  (after normalisation possibly with swapped branches: take the branch that fills the table)
                for x in ast.walk(t):
                    if isinstance(x, ast.Call) and attr_chain(x.func) == "len" and x.args and (attr_chain(x.args[0]) or "").startswith("self.") and attr_chain(x.args[0]).count(".") == 1:
                        T = attr_chain(x.args[0])
                lazy_value = False
                if T is None and mname != "__init__":
                    # self.X is None | self.X is not None | not self.X : a single value built on first use
                    tt_ = t.operand if isinstance(t, ast.UnaryOp) and isinstance(t.op, ast.Not) else t
                    if isinstance(tt_, ast.Compare) and len(tt_.ops) == 1 and isinstance(tt_.ops[0], (ast.Is, ast.IsNot)) and isinstance(tt_.comparators[0], ast.Constant) \
                            and tt_.comparators[0].value is None:
                        tt_ = tt_.left
                    c_ = attr_chain(tt_) if isinstance(tt_, ast.Attribute) else None
                    if c_ and c_.startswith("self.") and c_.count(".") == 1:
                        T, lazy_value = c_, True
                if T is None:
                    continue
                if lazy_value:
                    fills = [b_ for blk in (n.body, n.orelse) for b_ in blk if isinstance(b_, ast.Assign) and any(attr_chain(tg) == T for tg in b_.targets)
                             and not (isinstance(b_.value, ast.Constant) and b_.value.value is None)]
                else:
                    fills = [b_ for blk in (n.body, n.orelse) for b_ in blk for y in ast.walk(b_)
                             if isinstance(y, ast.Subscript) and isinstance(y.ctx, ast.Store) and attr_chain(y.value) == T]
                if not fills:
                    continue
                blk = n.body if any(f_ in n.body for f_ in fills) else n.orelse
                deps = {attr_chain(y) for b_ in blk for y in ast.walk(b_) if isinstance(y, ast.Attribute) and (attr_chain(y) or "").startswith("self.") and attr_chain(y).count(".") == 1} - {T}
                dep_names = {d.split(".")[1] for d in deps}
                tname = T.split(".")[1]
                if lazy_value and not dep_names:
                    continue  # built from parameters / constants only: nothing of the object it could fall behind
                n_tab += 1
                stale = []
                for q2, f2 in sorted(prog.funcs.items()):
                    if f2.name == "__init__" and f2.cls == c.name:
                        continue
                    writes = [(y, s2) for s2 in walk_no_nested(f2.node) if isinstance(s2, (ast.Assign, ast.AugAssign)) for tg in (s2.targets if isinstance(s2, ast.Assign) else [s2.target])
                              for y in ([tg] if not isinstance(tg, (ast.Tuple, ast.List)) else tg.elts) if isinstance(y, ast.Attribute) and y.attr in dep_names]
                    for y, s2 in writes:
                        base = attr_chain(y.value)
                        if base is None:
                            continue
                        if base == "self" and f2.cls != c.name and not any(cc.name == f2.cls for cc in prog.subclasses(cq)):
                            continue  # another class' attribute of the same name
                        if base != "self" and not base.endswith(("gFunction", "g_function")) and c.name == "GFunction":
                            continue
                        resets = any(isinstance(z, (ast.Assign,)) and any(isinstance(tt, ast.Attribute) and tt.attr == tname and attr_chain(tt.value) == base for tt in z.targets) for z in walk_no_nested(f2.node)) \
                            or any(isinstance(z, ast.Call) and isinstance(z.func, ast.Attribute) and z.func.attr == "clear" and isinstance(z.func.value, ast.Attribute) and z.func.value.attr == tname and attr_chain(z.func.value.value) == base for z in walk_no_nested(f2.node))
                        if not resets:
                            stale.append((f2, s2, f"{base}.{y.attr}"))
                res.ob("R13.12", f"{c.name}.{mname}: {T} is built on first use from {sorted(deps)}; nothing re-assigns those without emptying it", not stale, prog.loc(m, n))
                for f2, s2, what in stale[:3]:
                    res.violation("R13.12", f"lazy-table|{cq}|{T}|{f2.qualname}|{what}", prog.loc(f2, s2), f2.qualname,
                                  f"'{norm_stmt(s2)[:80]}' replaces {what}, from which {c.name}.{mname} built {T} on first use, without emptying that table: "
                                  "an object that has interpolated before keeps answering from the previous curves")
    res.count("lazy_tables", n_tab)
    res.floor("lazy_tables", 1)


def _check_design_rebuilt(prog: Program, res: Result):
    """R13.11: the design object holds its own references to every input object (borehole, pipe, fluid, grout, soil, limits,
    loads), and every setter REPLACES those objects.  A set_design that reports success while keeping an earlier design object
    therefore searches with the configuration of an earlier call.  On every path that returns 0, set_design must have built a
    design from the manager's current attributes and this call's arguments, and stored it."""
    from ..model import bind_args
    from ..paths import Obj

    sd = prog.func("ghedesigner.manager.GHEManager.set_design")
    DES = "ghedesigner.design"
    dclasses = {c.name: c for q, c in prog.classes.items() if q.startswith(DES + ".") and c.name != "DesignBase" and prog.method(q, "__init__") is not None}
    if len(dclasses) < 5:
        raise AnalysisError("design classes not found")

    class HD(Hooks):
        def on_call(self, node, fname, args, kwargs, st, eng):
            if fname in dclasses:
                init_ = prog.method(dclasses[fname].qualname, "__init__")
                st.emit("DESIGN", (fname, {k: v for k, v in bind_args(init_, node).items()}), node)
                return Obj(f"DESIGN#{fname}#{node.lineno}")
            return None

        def on_assign(self, key, val, stmt, st, eng):
            if key == "self._design":
                st.emit("STORE", val, stmt)

    e_ = Engine(prog, sd, HD())
    s_ = State()
    for p_ in sd.params():
        s_.env[p_] = Rat.atom(p_)
    n_ok = 0
    seen = set()
    for f_ in e_.run_function(s_):
        if f_.exit is None or f_.exit[0] != "return":
            continue
        rv = f_.exit[1]
        if not (isinstance(rv, Rat) and rv.is_const() and rv.const_value() == 0):
            continue
        n_ok += 1
        ds = [e for e in f_.events if e.kind == "DESIGN"]
        stored = [e for e in f_.events if e.kind == "STORE" and isinstance(e.data, Obj)]
        ok = len(ds) == 1 and len(stored) >= 1
        stale = []
        if ok:
            # every constructor argument is an attribute of the manager as it is NOW, a parameter of this call, or a local derived from one
            params = set(sd.params())
            for k, v in ds[0].data[1].items():
                names = {x.id for x in ast.walk(v) if isinstance(x, ast.Name)}
                chains = {attr_chain(x) for x in ast.walk(v) if isinstance(x, ast.Attribute) and attr_chain(x)}
                if any(c and c.startswith("self._design") for c in chains):
                    stale.append(k)
        okk = ok and not stale
        key = (f_.exit[2].lineno, okk, ds[0].data[0] if ds else None)
        if key in seen:
            continue
        seen.add(key)
        res.ob("R13.11", f"set_design reports success after building {ds[0].data[0] if ds else 'NO design object'} from the manager's current inputs and storing it", okk, prog.loc(sd, f_.exit[2]))
        if not okk:
            res.violation("R13.11", f"design-kept|{'no-design' if not ds else 'from-old-design:' + ','.join(stale)}", prog.loc(sd, f_.exit[2]), sd.qualname,
                          "set_design returns 0 on a path that keeps (or copies from) the earlier design object: that object still refers to the borehole / pipe / fluid / grout / soil / limits / loads "
                          "objects of the earlier call, which the setters have since replaced - the search then runs with an earlier configuration")
    if n_ok < 6:
        raise AnalysisError(f"{sd.qualname}: success paths not found ({n_ok})")


STALE_ACCEPT = {
    ("BaseGHE", "self.gFunction"): "the rebuild uses the object's own coordinates (R13.1 rebuild-passthrough), so nbh and the per-borehole flow stay valid",
    ("BaseGHE", "self.bhe_eq"): "radial_numerical is told about the new equivalent tube by calc_sts_g_functions(self.bhe_eq) right after (partial_init)",
    ("GHE", "self.bhe_eq", "self.hybrid_load"): "the hybrid loads are built once per object from the constructor's equivalent tube and deliberately not refreshed (comment in grab_g_function: "
                                                  "'Don't update the HybridLoad ... it doesn't change the results much'): they depend on the constructor's inputs only, so no simulate / size history enters",
    ("RadialNumericalBH", "self.single_u_tube"): "the mesh geometry of the first tube is kept on purpose - stale but self-consistent (DESIGN 10.5); C10 R10.9 guards half-refreshes",
}


def _check_stale_and_memo(prog: Program, res: Result):
    """R13.10: (a) package-wide stale derived state - a method that replaces an attribute leaves behind what the constructor
    computed from it (the object then answers from a mixture of old and new inputs: history dependence); the three places
    where today's code does that on purpose are listed with their reason.  (b) package-wide memoised returns under a key that
    leaves out a parameter."""
    from ..derived import stale_derived
    from ..memo import memo_bypass

    n_links = 0
    n_cls = 0
    for cq, c in sorted(prog.classes.items()):
        n, bad = stale_derived(prog, cq)
        if not n:
            continue
        n_cls += 1
        n_links += n
        groups = {}
        for cls_, m, st_, y, x, how, dstmt in bad:
            groups.setdefault((c.name, y), []).append((cls_, m, st_, x, how, dstmt))
        for (cn, y), items in sorted(groups.items()):
            # dependences accepted one by one (class, replaced attribute, derived attribute) come off first
            kept = []
            for it in items:
                a3 = STALE_ACCEPT.get((cn, y, it[3]))
                if a3:
                    res.ob("R13.10", f"{cn}: {y} is replaced by {it[1].name} without recomputing {it[3][5:]} - accepted: {a3[:110]}", True, prog.loc(it[1], it[2]))
                else:
                    kept.append(it)
            items = kept
            if not items:
                continue
            acc = STALE_ACCEPT.get((cn, y))
            if acc and (cn, y) == ("BaseGHE", "self.bhe_eq"):
                # the reason given is itself checked: each method that replaces the tube hands it to the short-time model afterwards
                for cls_, m, st_, x, how, dstmt in items:
                    if not isinstance(st_, (ast.Assign, ast.AugAssign)):
                        continue  # replaced through a call of another method of the object: that method is checked itself
                    told = any(isinstance(k, ast.Call) and attr_chain(k.func) == "self.radial_numerical.calc_sts_g_functions" and k.args and attr_chain(k.args[0]) == "self.bhe_eq" and k.lineno > st_.lineno
                               for k in ast.walk(m.node))
                    if not told:
                        acc = None
            if acc:
                res.ob("R13.10", f"{cn}: {y} is replaced by {sorted({i[1].name for i in items})} without recomputing {sorted({i[3][5:] for i in items})[:4]} - accepted: {acc[:110]}", True, prog.loc(items[0][1], items[0][2]))
                continue
            for cls_, m, st_, x, how, dstmt in items[:3]:
                res.ob("R13.10", f"{cls_.name}.{m.name}: replaces {y}, {x} {how}", False, prog.loc(m, st_))
                res.violation("R13.10", f"stale|{cls_.name}.{m.name}|{y}|{x}", prog.loc(m, st_), m.qualname,
                              f"{cls_.name}.{m.name}() replaces {y}, but {x} - which the constructor computed from it ({norm_stmt(dstmt)[:90]}) - {how}: "
                              "later results mix the old and the new input, i.e. they depend on what the object was used for before")
        if not bad:
            res.ob("R13.10", f"{c.name}: nothing the constructor derives from an attribute goes stale when a method replaces it ({n} dependences)", True, f"{c.module.replace('.', '/')}.py:{src_line(c.node)}")
    res.count("derived_dependences", n_links)
    res.floor("derived_dependences", 60)
    n_memo = 0
    for q, fi in sorted(prog.funcs.items()):
        for r, store, key, missing in memo_bypass(prog, fi):
            n_memo += 1
            ok = not missing
            res.ob("R13.10", f"{q}: 'return {store}[{key[:40]}]' - the key depends on every parameter", ok, prog.loc(fi, r))
            if not ok:
                res.violation("R13.10", f"memo|{q}|{store}|{missing}", prog.loc(fi, r), q,
                              f"{fi.name}() returns the stored {store}[{key[:60]}] although the key does not depend on {missing}: the answer is the one computed for an earlier call's values of those parameters")
    res.count("memo_returns", n_memo)


def _check_keyless_memos(prog: Program, res: Result):
    """R13.9: a method that returns early when self.<x> is already set (`if self.x is not None: return`) memoises x without a
    key.  That is history independent only if every other method that writes something the producer reads also resets
    self.<x>.  Reads / writes come from the effect analysis (upward-exposed reads of the producer, may-writes of the others)."""
    n_memo = 0
    for cq, c in sorted(prog.classes.items()):
        ea = None
        for mname, m in c.methods.items():
            # the guard: the first statement after the docstring and plain local assignments (the memo key may be prepared there)
            g = None
            for s_ in m.node.body:
                if isinstance(s_, ast.Expr) and isinstance(s_.value, ast.Constant):
                    continue
                if isinstance(s_, ast.Assign) and all(isinstance(t_, ast.Name) for t_ in s_.targets):
                    continue
                g = s_
                break
            if not isinstance(g, ast.If) or g.orelse:
                continue
            if not (len(g.body) == 1 and isinstance(g.body[0], ast.Return)):
                continue
            conj = g.test.values if isinstance(g.test, ast.BoolOp) and isinstance(g.test.op, ast.And) else [g.test]
            x = None
            for t in conj:
                if isinstance(t, ast.Compare) and len(t.ops) == 1 and isinstance(t.ops[0], ast.IsNot) and isinstance(t.comparators[0], ast.Constant) and t.comparators[0].value is None:
                    x = x or attr_chain(t.left)
                elif isinstance(t, ast.Attribute):
                    x = x or attr_chain(t)
            if not x or not x.startswith("self.") or x.count(".") != 1:
                continue
            # what the other conjuncts compare is the memo's key: attributes read there are covered by it
            from ..model import inline_single_defs

            keyed = {attr_chain(a) for t in conj for a in ast.walk(inline_single_defs(m.node, t)) if isinstance(a, ast.Attribute) and attr_chain(a)}
            keyed = {k for k in keyed if k and k.startswith("self.")} - {x}
            # the producer must assign x later in the same method
            if not any(isinstance(n, ast.Assign) and any(attr_chain(tt) == x for tt in n.targets) for n in ast.walk(m.node)):
                continue
            n_memo += 1
            if ea is None:
                ea = EffectAnalyzer(prog)
            eff = ea.method(m)
            deps = {r for r in eff.exposed if r != x and not r.startswith(x + ".") and not any(r == k or r.startswith(k + ".") for k in keyed)}
            stale = []
            for wname, w in c.methods.items():
                if w is m or wname == "__init__":
                    continue
                we = ea.method(w)
                hit = sorted(d for d in deps if any(d == ww or d.startswith(ww + ".") or ww.startswith(d + ".") for ww in we.may_write))
                if hit and not any(ww == x for ww in we.may_write) and not any(k == ww or ww.startswith(k + ".") for ww in we.may_write for k in keyed):
                    stale.append((w, hit))
            ok = not stale
            res.ob("R13.9", f"{c.name}.{mname} keeps {x} once it is set{' (key: ' + ', '.join(sorted(keyed)) + ')' if keyed else ''}; every method that changes what it is built from resets it", ok, prog.loc(m, g))
            for w, hit in stale[:3]:
                res.violation("R13.9", f"{cq}.{mname}|{x}|{w.name}", prog.loc(w, w.node), w.qualname,
                              f"{c.name}.{mname}() returns early when {x} is already set, but {w.name}() changes {hit[:3]} (which {mname} reads) without resetting {x}: "
                              "after a second run on the same object the first run's result is handed out")
    # lossy keys: a table kept on the object that is read back under a key passed through round / int / floor / // / % merges
    # entries that belong to different inputs - which one is handed out depends on what was stored first
    LOSSY = ("round", "int", "floor", "ceil", "math.floor", "math.ceil", "abs")
    n_tab = 0
    for cq, c in sorted(prog.classes.items()):
        tables = {}
        for mname, m in c.methods.items():
            for n in ast.walk(m.node):
                store = key = None
                kind = None
                if isinstance(n, ast.Call) and isinstance(n.func, ast.Attribute) and n.func.attr in ("get", "setdefault") and n.args:
                    store, key, kind = n.func.value, n.args[0], ("read" if n.func.attr == "get" else "write")
                elif isinstance(n, ast.Subscript):
                    store, key, kind = n.value, n.slice, ("write" if isinstance(n.ctx, ast.Store) else "read")
                ch = attr_chain(store) if store is not None else None
                if ch and ch.startswith("self.") and ch.count(".") == 1:
                    tables.setdefault(ch, []).append((kind, key, m, n))
        for ch, uses in sorted(tables.items()):
            if not (any(k == "read" for k, *_ in uses) and any(k == "write" for k, *_ in uses)):
                continue
            n_tab += 1
            for kind, key, m, n in uses:
                lossy = [x for x in ast.walk(key) if (isinstance(x, ast.Call) and attr_chain(x.func) in LOSSY) or (isinstance(x, ast.BinOp) and isinstance(x.op, (ast.FloorDiv, ast.Mod)))]
                # an index computed for a list position (i // 12, i % 12 of a loop counter) is not a memo key: only keys built from parameters / attributes of float quantities
                if lossy and any(isinstance(y, ast.Name) and y.id in m.params() for x in lossy for y in ast.walk(x)):
                    res.ob("R13.9", f"{c.name}.{m.name}: {ch} is {kind} under the key {ast.unparse(key)[:40]}", False, prog.loc(m, n))
                    res.violation("R13.9", f"{cq}.{m.name}|lossy-key|{ch}|{ast.unparse(key)[:40]}", prog.loc(m, n), m.qualname,
                                  f"{c.name} keeps results in {ch} and {'reads' if kind == 'read' else 'stores'} them under {ast.unparse(key)[:60]}: the key merges different inputs "
                                  f"({ast.unparse(lossy[0])[:40]} is not injective), so which result is handed out depends on what was stored first - on earlier calls and on the nominal inputs")
    res.count("keyless_memos", n_memo)
    res.count("object_tables", n_tab)


EXTERNAL_READS = ("read_text", "read_bytes", "open", "read", "readlines", "getenv", "environ", "stat", "exists", "listdir", "glob", "iterdir", "load", "getmtime")


def _check_decorator_memos(prog: Program, res: Result):
    """R13.13: a function under lru_cache / cache is keyed by its arguments only.  If its body reads something that can change
    while the argument stays the same - a file (the argument is its PATH), the environment, the clock, an attribute of an object
    that is not part of the key - a later call with the same argument is answered with what was read the first time."""
    from ..model import memo_decorated

    n = 0
    for q, fi in sorted(prog.funcs.items()):
        dec = memo_decorated(fi)
        if dec is None:
            continue
        n += 1
        ext = None
        for x in walk_no_nested(fi.node):
            if isinstance(x, ast.Call):
                c = attr_chain(x.func) or (x.func.attr if isinstance(x.func, ast.Attribute) else "")
                last = c.split(".")[-1]
                if last in EXTERNAL_READS or c in NONDET_CALLS:
                    ext = (x, c)
                    break
            if isinstance(x, ast.Attribute) and attr_chain(x) and attr_chain(x).startswith("self.") and isinstance(x.ctx, ast.Load) and "self" in fi.params():
                ext = (x, attr_chain(x) + " (an attribute that can be re-assigned while the object stays the same key)")
                break
        res.ob("R13.13", f"{fi.name} is cached ({dec}) and computes from its arguments only", ext is None, prog.loc(fi, fi.node))
        if ext is not None:
            res.violation("R13.13", f"memo-external|{q}|{ext[1][:40]}", prog.loc(fi, ext[0]), q,
                          f"{fi.name} is cached by {dec} under its arguments, but its result is read from {ext[1]}: when that changes and the argument does not "
                          "(the same path, another content), the earlier result is returned - what a run sees depends on what was done before in the process")
    res.count("decorator_memos", n)


def _check_param_mutation(prog: Program, res: Result):
    """R13.7: a function that changes a list / dict / array PARAMETER in place changes its caller's object.  That carries
    state from call to call exactly when some call site hands over stored state: an attribute, an element of an attribute
    container, a module-level container, or the result of a function that returns one of those (may-alias, resolved
    through the callers' local definitions and the callees' return statements)."""
    from ..model import bind_args, may_be_stored_state, param_container_mutations

    n_sites = 0
    n_pairs = 0
    for q, fi in sorted(prog.funcs.items()):
        muts = param_container_mutations(fi)
        if not muts:
            continue
        for node, p, how in muts:
            n_sites += 1
            hits = []
            for q2, f2 in sorted(prog.funcs.items()):
                for c in walk_no_nested(f2.node):
                    if isinstance(c, ast.Call) and (attr_chain(c.func) or "").split(".")[-1] == fi.name:
                        b = bind_args(fi, c)
                        if p in b:
                            n_pairs += 1
                            r = may_be_stored_state(prog, f2, b[p])
                            if r:
                                hits.append((q2, f2, c, r))
            acc = PARAM_MUTATION_ACCEPT.get((fi.name, p))
            if hits and acc:
                res.ob("R13.7", f"{fi.name}({p}) is changed in place ({how}) and receives stored state ({hits[0][3]}) - accepted: {acc[:90]}", True, prog.loc(fi, node))
                continue
            res.ob("R13.7", f"{fi.name}: parameter {p} is changed in place ({how}); no call site hands it stored state", not hits, prog.loc(fi, node))
            for q2, f2, c, r in hits[:1]:
                res.violation("R13.7", f"{q}|{p}|{r[:60]}", prog.loc(fi, node), q,
                              f"{fi.name} changes its parameter {p} in place ({how}) and {q2.split('.')[-1]} passes it {r}: the stored object is altered by every call, so later results depend on how often it was called",
                              call_site=prog.loc(f2, c))
    # the same through a local alias of stored state:  L = self.a ; L *= n  /  L.append(..)  /  L[i] = ..
    from ..model import attr_alias_mutations

    n_alias = 0
    for q, fi in sorted(prog.funcs.items()):
        for node, loc_, chain, how in attr_alias_mutations(fi):
            n_alias += 1
            res.ob("R13.7", f"{fi.name}: the stored object {chain} is not changed in place through its alias {loc_}", False, prog.loc(fi, node))
            res.violation("R13.7", f"{q}|alias|{chain}|{loc_}", prog.loc(fi, node), q,
                          f"{loc_} is bound to {chain} and then changed in place ({how}): the stored object itself changes, later calls (and every other object sharing it) see the changed value")
    res.count("attr_alias_mutations", n_alias)
    res.count("param_mutation_sites", n_sites)
    res.count("param_mutation_call_sites", n_pairs)
    res.floor("param_mutation_sites", 8)


def _check_globals_and_nondeterminism(prog: Program, res: Result):
    n_funcs = 0
    for mname, m in sorted(prog.modules.items()):
        mod_names = set(m.constants) | {k for k in m.imports}
        mutable_globals = {k for k, v in m.constants.items() if isinstance(v, (ast.List, ast.Dict, ast.Set)) or (isinstance(v, ast.Call) and attr_chain(v.func) in ("list", "dict", "set"))}
        for q, fi in sorted(prog.funcs.items()):
            if fi.module != mname:
                continue
            n_funcs += 1
            local_stores = {x.id for x in ast.walk(fi.node) if isinstance(x, ast.Name) and isinstance(x.ctx, ast.Store)} | set(fi.params())
            from ..model import module_container_mutations

            for node_, loc_, g_, how_ in module_container_mutations(prog, fi):
                if loc_ != g_:  # direct mutations are reported below under their own key
                    res.violation("R13.3", f"{q}|mutates {g_} via {loc_}", prog.loc(fi, node_), q,
                                  f"module-level object {g_} is mutated in place through the local alias {loc_} ({how_}): the change persists into later calls")
            for n in ast.walk(fi.node):
                if isinstance(n, ast.Global):
                    res.violation("R13.3", f"{q}|global {','.join(n.names)}", prog.loc(fi, n), q, f"'global {', '.join(n.names)}': module state is rebound by a function")
                if isinstance(n, ast.Call) and isinstance(n.func, ast.Attribute) and isinstance(n.func.value, ast.Name) and n.func.value.id in mutable_globals \
                        and n.func.value.id not in local_stores and n.func.attr in ("append", "extend", "update", "pop", "clear", "insert", "setdefault", "add"):
                    res.violation("R13.3", f"{q}|mutates {n.func.value.id}", prog.loc(fi, n), q, f"module-level object {n.func.value.id} is mutated by .{n.func.attr}()")
                if isinstance(n, (ast.Assign, ast.AugAssign)):
                    for t in (n.targets if isinstance(n, ast.Assign) else [n.target]):
                        if isinstance(t, ast.Subscript) and isinstance(t.value, ast.Name) and t.value.id in mutable_globals and t.value.id not in local_stores:
                            # a memo of a plain function under a key that depends on every parameter does not carry history
                            from ..memo import memo_bypass

                            mb = [x for x in memo_bypass(prog, fi) if x[1] == t.value.id] if fi.cls is None else []
                            if mb and all(not x[3] and x[2] == ast.unparse(t.slice) for x in mb) and isinstance(n, ast.Assign):
                                res.ob("R13.3", f"{q}: {t.value.id}[{ast.unparse(t.slice)[:40]}] memoises a function of its arguments under a key that depends on every parameter", True, prog.loc(fi, n))
                                continue
                            res.violation("R13.3", f"{q}|stores into {t.value.id}", prog.loc(fi, n), q, f"module-level object {t.value.id} is written by a function")
                # non-determinism
                if isinstance(n, ast.Call):
                    cn = attr_chain(n.func)
                    if cn in NONDET_CALLS:
                        # resolve bare names through imports (time -> time.time)
                        tgt = cn
                        if "." not in cn:
                            if cn in local_stores:
                                continue
                            r = prog.resolve_name(fi.module, cn)
                            if r is None and cn not in ("id", "hash"):
                                continue
                            if r is not None and r[0] != "ext":
                                continue
                            tgt = r[1] if r else cn
                        root = q.split(".<locals>")[0]
                        allowed = NONDET_SITES.get(root)
                        res.ob("R13.4", f"{tgt}() in {root.replace('ghedesigner.', '')}: {'recorded site - ' + allowed if allowed else 'NOT a recorded site'}", allowed is not None, prog.loc(fi, n))
                        if not allowed:
                            res.violation("R13.4", f"{root}|{tgt}", prog.loc(fi, n), q,
                                          f"{tgt}() is a source of non-determinism outside the two recorded time-stamp / run-time sites")
                if isinstance(n, (ast.For, ast.comprehension)):
                    it = n.iter
                    if isinstance(it, ast.Set) or (isinstance(it, ast.Call) and attr_chain(it.func) in ("set", "frozenset")):
                        res.violation("R13.4", f"{q}|set-iteration|{ast.unparse(it)[:40]}", prog.loc(fi, it), q,
                                      f"iteration over a set ({ast.unparse(it)[:60]}): order depends on hashing")
    res.count("functions_scanned", n_funcs)
    res.floor("functions_scanned", 150)
    res.ob("R13.3", f"no function rebinds or mutates a module-level name ({n_funcs} functions scanned)", not any(f.rule == "R13.3" for f in res.findings), "ghedesigner/")
    # the wall-clock value must only flow into the run-time field
    fd = prog.func("ghedesigner.manager.GHEManager.find_design")
    uses = [norm_stmt(s) for s in ast.walk(fd.node) if isinstance(s, ast.Assign) and any("time()" in ast.unparse(s.value) or "start_time" in ast.unparse(s.value) for _ in [0])]
    ok = all(("start_time" in u.split("=")[0]) or ("self._search_time" in u.split("=")[0]) for u in uses) and bool(uses)
    res.ob("R13.4", f"find_design: wall-clock values flow only into start_time / self._search_time ({uses})", ok, prog.loc(fd, fd.node))
    if not ok:
        res.violation("R13.4", "clock-flow", prog.loc(fd, fd.node), fd.qualname, f"wall-clock time flows into {uses}")
    readers = []
    for q, fi in prog.funcs.items():
        for n in ast.walk(fi.node):
            if isinstance(n, ast.Attribute) and n.attr == "_search_time" and isinstance(n.ctx, ast.Load):
                readers.append((q, n))
    bad = [(q, n) for q, n in readers if q not in ("ghedesigner.manager.GHEManager.prepare_results",)]
    res.ob("R13.4", "the search time is read only by prepare_results (-> OutputManager 'time' parameter)", not bad, "ghedesigner/manager.py")
    for q, n in bad:
        res.violation("R13.4", f"search-time-reader|{q}", prog.loc(prog.funcs[q], n), q, "the search wall-clock time is read outside prepare_results")


def _check_setters(prog: Program, res: Result, ea: EffectAnalyzer):
    cls = prog.cls("ghedesigner.manager.GHEManager")
    setters = {n: f for n, f in cls.methods.items() if n.startswith("set_")}
    res.count("setters", len(setters))
    res.floor("setters", 12)
    effs = {n: ea.method(f) for n, f in setters.items()}
    writes = {}
    for n, e in effs.items():
        for c in e.may_write:
            writes.setdefault(c, []).append(n)
    exempt = {"set_design": "snapshots the whole configuration by design"}
    for n, e in sorted(effs.items()):
        clashes = []
        for r in e.exposed:
            base = ".".join(r.split(".")[:2])
            for w, ws in writes.items():
                if (r == w or r.startswith(w + ".") or base == w) and any(x != n for x in ws):
                    clashes.append((r, [x for x in ws if x != n]))
        if n in exempt:
            res.ob("R13.5", f"{n}: reads {sorted({c for c, _ in clashes})} - exempt: {exempt[n]}", True, prog.loc(setters[n], setters[n].node))
            continue
        res.ob("R13.5", f"{n}: reads nothing another setter writes", not clashes, prog.loc(setters[n], setters[n].node))
        for r, ws in clashes:
            res.violation("R13.5", f"{n}|{r}", prog.loc(setters[n], e.exposed[r]), setters[n].qualname,
                          f"{n}() reads {r}, which {ws} write: the outcome depends on the order of the setter calls")


def _check_nominal_height(prog: Program, res: Result):
    """R13.6: first use of self.ghe in search() is preceded by initialize_ghe / calculate_excess"""
    SR = "ghedesigner.search_routines"
    for q in (f"{SR}.Bisection1D.search", f"{SR}.RowWiseModifiedBisectionSearch.search", f"{SR}.BisectionZD.search_successive"):
        fi = prog.func(q)
        res.analysed(q)

        class H(Hooks):
            def on_call(self, node, fname, args, kwargs, st, eng):
                if fname in ("self.initialize_ghe", "self.calculate_excess", "self.search"):
                    st.emit("INIT", fname, node)
                elif fname and fname.startswith("self.ghe."):
                    st.emit("USE", fname, node)
                return None

        def seed(s):
            for n in ast.walk(s):
                if isinstance(n, ast.Call):
                    c = attr_chain(n.func) or ""
                    if c in ("self.initialize_ghe", "self.calculate_excess", "self.search") or c.startswith("self.ghe."):
                        return True
                if isinstance(n, ast.Attribute) and (attr_chain(n) or "").startswith("self.ghe.") and isinstance(n.ctx, ast.Load):
                    return True
            return False

        eng = Engine(prog, fi, H(), loop_bound=1, max_paths=100000)
        eng.slice(fi.node.body, seed)
        st = State()
        for p in fi.params():
            st.env[p] = Rat.atom(p)
        finals = eng.run_function(st)
        res.count("search_paths", len(finals))
        bad = None
        for f in finals:
            for e in f.events:
                if e.kind == "INIT":
                    break
                if e.kind == "USE":
                    bad = (e, f)
                    break
            if bad:
                break
        res.ob("R13.6", f"{q.split('.')[-2]}.{q.split('.')[-1]}: every path initialises the GHE with an explicit height before using it ({len(finals)} paths)", bad is None, prog.loc(fi, fi.node))
        if bad:
            e, f = bad
            res.violation("R13.6", f"{q}|{e.data}", prog.loc(fi, e.node), q,
                          f"{e.data}() is reached before initialize_ghe / calculate_excess: the GHE still carries the nominal borehole height given to the setter")
    # the constructors call search() themselves (or the subclasses do) - nothing H-dependent in between
    for q in (f"{SR}.Bisection1D.__init__",):
        fi = prog.func(q)
        uses = []
        for n in walk_no_nested(fi.node):
            if isinstance(n, ast.Call):
                c = attr_chain(n.func) or ""
                if c.startswith("self.ghe.") and c.split(".")[-1] in ("simulate", "size", "compute_g_functions", "cost"):
                    uses.append(n)
        res.ob("R13.6", "Bisection1D.__init__ does not simulate or size the GHE built at the nominal height", not uses, prog.loc(fi, fi.node))
        for n in uses:
            res.violation("R13.6", f"{q}|{norm_stmt(n)}", prog.loc(fi, n), q, f"{norm_stmt(n)} in the constructor uses the GHE at the nominal height")


M = "ghedesigner.manager"
VARIANTS = [
    Variant("parsed input file cached by its path (seeded C18_j)", "break",
            [("ghedesigner.validate", "import sys\nfrom json import loads\n", "import sys\nfrom functools import lru_cache\nfrom json import loads\n"),
             ("ghedesigner.validate", "def validate_schema_instance(schema_file_name: str, instance: dict, error_msg: str) -> int:",
              "@lru_cache(maxsize=32)\ndef read_input_file(input_file_path: Path) -> dict:\n    return loads(input_file_path.read_text())\n\n\ndef validate_schema_instance(schema_file_name: str, instance: dict, error_msg: str) -> int:"),
             ("ghedesigner.validate", "    instance = loads(input_file_path.read_text())\n\n    # validate", "    instance = read_input_file(input_file_path)\n\n    # validate")], "R13.13"),
    Variant("month names served from a cache (pure function of its argument)", "benign",
            [("ghedesigner.ground_loads", "import warnings\nfrom calendar import monthrange\n", "import warnings\nfrom calendar import monthrange\nfrom functools import lru_cache\n"),
             ("ghedesigner.ground_loads", "def number_to_month(x):", "@lru_cache(maxsize=None)\ndef number_to_month(x):")]),
    Variant("rectangle() memoised and transposed in place (seeded C03_j)", "break",
            [("ghedesigner.coordinates", "from typing import List, Tuple, Union\n", "from functools import lru_cache\nfrom typing import List, Tuple, Union\n"),
             ("ghedesigner.coordinates", "    coordinates_transposed = []\n    for x, y in coordinates:\n        coordinates_transposed.append((y, x))\n    return coordinates_transposed",
              "    for i, (x, y) in enumerate(coordinates):\n        coordinates[i] = (y, x)\n    return coordinates"),
             ("ghedesigner.coordinates", "def rectangle(\n", "@lru_cache(maxsize=None)\ndef rectangle(\n")], "R13.7"),
    Variant("the last equivalent pipe conductivity is remembered on the class and narrows the next search (seeded C15_g)", "break",
            [("ghedesigner.borehole_heat_exchangers", "class GHEDesignerBoreholeWithMultiplePipes(GHEDesignerBoreholeBase):\n", "class GHEDesignerBoreholeWithMultiplePipes(GHEDesignerBoreholeBase):\n    _k_p_equivalent = None\n\n"),
             ("ghedesigner.borehole_heat_exchangers", "        return eq_single_u_tube\n\n    def match_effective_borehole_resistance", "        GHEDesignerBoreholeWithMultiplePipes._k_p_equivalent = eq_single_u_tube.pipe.k\n        return eq_single_u_tube\n\n    def match_effective_borehole_resistance")], "R13.8"),
    Variant("short-time interpolant built on first use and never refreshed when the curves are recomputed (seeded C07_l)", "break",
            [("ghedesigner.radial_numerical_borehole", "        self.g_sts = None\n", "        self._g_sts = None\n\n    @property\n    def g_sts(self):\n        if self._g_sts is None:\n            self._g_sts = interp1d(self.lntts, self.g)\n        return self._g_sts\n"),
             ("ghedesigner.radial_numerical_borehole", "        self.g_sts = interp1d(self.lntts, self.g)\n\n        return self.lntts, self.g", "        return self.lntts, self.g")], "R13.12"),
    Variant("short-time interpolant built on first use, dropped whenever the curves are recomputed", "benign",
            [("ghedesigner.radial_numerical_borehole", "        self.g_sts = None\n", "        self._g_sts = None\n\n    @property\n    def g_sts(self):\n        if self._g_sts is None:\n            self._g_sts = interp1d(self.lntts, self.g)\n        return self._g_sts\n"),
             ("ghedesigner.radial_numerical_borehole", "        self.g_sts = interp1d(self.lntts, self.g)\n\n        return self.lntts, self.g", "        self._g_sts = None\n\n        return self.lntts, self.g")]),
    Variant("compute_g_functions writes the new curves into the existing g-function object (seeded C13_h)", "break",
            [(GHX, "        self.gFunction = g_function\n\n\nclass GHE(BaseGHE):", "        self.gFunction.g_lts = g_function.g_lts\n        self.gFunction.r_b_values = g_function.r_b_values\n\n\nclass GHE(BaseGHE):")], "R13.12"),
    Variant("compute_g_functions writes the new curves into the existing g-function object and empties its interpolation table", "benign",
            [(GHX, "        self.gFunction = g_function\n\n\nclass GHE(BaseGHE):", "        self.gFunction.g_lts = g_function.g_lts\n        self.gFunction.r_b_values = g_function.r_b_values\n        self.gFunction.interpolation_table = {}\n\n\nclass GHE(BaseGHE):")]),
    Variant("set_design keeps the existing design object when the geometry is unchanged and updates only the flow (seeded C13_g)", "break",
            [(M, "        if self._geometric_constraints.type == DesignGeomType.NEARSQUARE:\n", "        if self._design is not None and self._design.geometric_constraints is self._geometric_constraints:\n            self._design.V_flow = flow_rate\n            self._design.flow_type = flow_type\n            return 0\n        if self._geometric_constraints.type == DesignGeomType.NEARSQUARE:\n")], "R13.11"),
    Variant("RadialNumericalBH-style half refresh in the GHE: a method replaces the borehole spacing but not what was derived from it", "break",
            [(GHX, "        self.B_spacing = b_spacing\n", "        self.B_spacing = b_spacing\n        self.B_over_max = self.B_spacing / 400.0\n"),
             (GHX, "    def as_dict(self) -> dict:\n        output = {}\n        output['title'] = f\"GHEDesigner GHE Output - Version {VERSION}\"", "    def respace(self, b):\n        self.B_spacing = b\n\n    def as_dict(self) -> dict:\n        output = {}\n        output['title'] = f\"GHEDesigner GHE Output - Version {VERSION}\"")], "R13.10"),
    Variant("search keeps the GHEs it built in a table keyed by the rounded height (after seeded C13_e)", "break",
            [("ghedesigner.search_routines", "        self.calculated_temperatures = {}\n\n        if search:\n            self.selection_key, self.selected_coordinates = self.search()\n\n    def retrieve_flow", "        self.calculated_temperatures = {}\n        self.built = {}\n\n        if search:\n            self.selection_key, self.selected_coordinates = self.search()\n\n    def retrieve_flow"),
             ("ghedesigner.search_routines", "        self.searchTracker.append([field_specifier, t_excess, max_hp_eft, min_hp_eft])\n\n        return t_excess\n\n    def search(self):\n        x_l_idx = 0", "        self.searchTracker.append([field_specifier, t_excess, max_hp_eft, min_hp_eft])\n        if self.built.get(round(h)) is None:\n            self.built[round(h)] = self.ghe\n\n        return t_excess\n\n    def search(self):\n        x_l_idx = 0")], "R13.9"),
    Variant("nested bi-rectangle domain memoised under a key without b_min (seeded C03_f)", "break",
            [("ghedesigner.domains", "def bi_rectangle_nested(", "_nested_domains: dict = {}\n\n\ndef bi_rectangle_nested("),
             ("ghedesigner.domains", "    # find the maximum number of boreholes as a float\n    n_2_max = (length_2 / b_min) + 1\n    n_2_min = (length_2 / b_max_2) + 1\n", "    key = (length_1, length_2, b_max_1, b_max_2, transpose)\n    if key in _nested_domains:\n        return _nested_domains[key]\n    # find the maximum number of boreholes as a float\n    n_2_max = (length_2 / b_min) + 1\n    n_2_min = (length_2 / b_max_2) + 1\n"),
             ("ghedesigner.domains", "        field_descriptors.append(f_d)\n\n    return bi_rectangle_nested_domain, field_descriptors", "        field_descriptors.append(f_d)\n\n    _nested_domains[key] = (bi_rectangle_nested_domain, field_descriptors)\n    return bi_rectangle_nested_domain, field_descriptors")], "R13.3"),
    Variant("nested bi-rectangle domain memoised under a key that names every input", "benign",
            [("ghedesigner.domains", "def bi_rectangle_nested(", "_nested_domains: dict = {}\n\n\ndef bi_rectangle_nested("),
             ("ghedesigner.domains", "    # find the maximum number of boreholes as a float\n    n_2_max = (length_2 / b_min) + 1\n    n_2_min = (length_2 / b_max_2) + 1\n", "    key = (length_1, length_2, b_min, b_max_1, b_max_2, transpose)\n    if key in _nested_domains:\n        return _nested_domains[key]\n    # find the maximum number of boreholes as a float\n    n_2_max = (length_2 / b_min) + 1\n    n_2_min = (length_2 / b_max_2) + 1\n"),
             ("ghedesigner.domains", "        field_descriptors.append(f_d)\n\n    return bi_rectangle_nested_domain, field_descriptors", "        field_descriptors.append(f_d)\n\n    _nested_domains[key] = (bi_rectangle_nested_domain, field_descriptors)\n    return bi_rectangle_nested_domain, field_descriptors")]),
    Variant("caller's hourly load list tiled in place (seeded C13_d)", "break",
            [(GHX, "                q_dot = q_dot * n_years", "                q_dot *= n_years")], "R13.7"),
    Variant("hourly simulate no longer refreshes the short-time model (seeded C13_c)", "break",
            [(GHX, "        self.bhe_eq = self.bhe.to_single()\n        # Update short time step object with equivalent single u-tube\n        self.radial_numerical.calc_sts_g_functions(self.bhe_eq)\n",
              "        if method == TimestepType.HYBRID:\n            self.bhe_eq = self.bhe.to_single()\n            self.radial_numerical.calc_sts_g_functions(self.bhe_eq)\n")], "R13.1"),
    Variant("search log declared at class level and no longer created per instance (seeded C12_c)", "break",
            [("ghedesigner.search_routines", "class Bisection1D:\n", "class Bisection1D:\n    searchTracker: list = []\n\n"),
             ("ghedesigner.search_routines", "        self.searchTracker = []\n        coordinates = coordinates_domain[0]", "        coordinates = coordinates_domain[0]")], "R13.8"),
    Variant("prepare_results keeps the first result for the lifetime of the manager (seeded C12_d)", "break",
            [(M, "    def prepare_results(self, project_name: str, note: str, author: str, iteration_name: str):\n", "    def prepare_results(self, project_name: str, note: str, author: str, iteration_name: str):\n        if self.results is not None:\n            return\n")], "R13.9"),
    Variant("prepare_results keeps the earlier result while the report labels are unchanged (seeded C19_d)", "break",
            [(M, "    def prepare_results(self, project_name: str, note: str, author: str, iteration_name: str):\n", "    def prepare_results(self, project_name: str, note: str, author: str, iteration_name: str):\n        labels = (project_name, note, author, iteration_name)\n        if self.results is not None and labels == getattr(self, '_results_labels', None):\n            return\n        self._results_labels = labels\n")], "R13.9"),
    Variant("prepare_results keeps the earlier result while labels AND the search object are unchanged", "benign",
            [(M, "    def prepare_results(self, project_name: str, note: str, author: str, iteration_name: str):\n", "    def prepare_results(self, project_name: str, note: str, author: str, iteration_name: str):\n        labels = (project_name, note, author, iteration_name)\n        if self.results is not None and labels == self._results_labels and self._search is self._results_search:\n            return\n        self._results_labels = labels\n        self._results_search = self._search\n"),
             (M, "        self.results: OutputManager | None = None\n", "        self.results: OutputManager | None = None\n        self._results_labels = None\n        self._results_search = None\n")]),
    Variant("radius correction applied in place to the curve it is given (seeded C13_b)", "break",
            [("ghedesigner.gfunction", """        g_function_corrected = []
        for g in g_function:
            g_function_corrected.append(g - log(rb_star / rb))
        return g_function_corrected""", """        shift = log(rb_star / rb)
        for i, g in enumerate(g_function):
            g_function[i] = g - shift
        return g_function""")], "R13.7"),
    Variant("radius correction with the shift hoisted, still building a new list", "benign",
            [("ghedesigner.gfunction", """        g_function_corrected = []
        for g in g_function:
            g_function_corrected.append(g - log(rb_star / rb))
        return g_function_corrected""", """        shift = log(rb_star / rb)
        return [g - shift for g in g_function]""")]),
    Variant("module-level month table patched in place through a local alias (seeded C08_b)", "break",
            [("ghedesigner.ground_loads", """    if leap_year:
        num_days = [31, 31, 29, 31, 30, 31, 30, 31, 31, 30, 31, 30, 31]
    else:
        num_days = [31, 31, 28, 31, 30, 31, 30, 31, 31, 30, 31, 30, 31]
    return num_days[md]""", """    num_days = DAYS_IN_MONTH
    if leap_year:
        num_days[2] = 29
    return num_days[md]"""),
             ("ghedesigner.ground_loads", "def monthdays(month, year):", "DAYS_IN_MONTH = [31, 31, 28, 31, 30, 31, 30, 31, 31, 30, 31, 30, 31]\n\n\ndef monthdays(month, year):")], "R13.3"),
    Variant("module-level month table copied before it is patched", "benign",
            [("ghedesigner.ground_loads", """    if leap_year:
        num_days = [31, 31, 29, 31, 30, 31, 30, 31, 31, 30, 31, 30, 31]
    else:
        num_days = [31, 31, 28, 31, 30, 31, 30, 31, 31, 30, 31, 30, 31]
    return num_days[md]""", """    num_days = DAYS_IN_MONTH
    if leap_year:
        num_days = list(num_days)
        num_days[2] = 29
    return num_days[md]"""),
             ("ghedesigner.ground_loads", "def monthdays(month, year):", "DAYS_IN_MONTH = [31, 31, 28, 31, 30, 31, 30, 31, 31, 30, 31, 30, 31]\n\n\ndef monthdays(month, year):")]),
    Variant("simulate() accumulates hp_eft across calls", "break",
            [(GHX, "        self.hp_eft = hp_eft\n        self.dTb = d_tb\n\n        return max(hp_eft), min(hp_eft)", "        self.hp_eft.extend(hp_eft)\n        self.dTb = d_tb\n\n        return max(hp_eft), min(hp_eft)")], "R13.1"),
    Variant("g-function memoised on the object without a key", "break",
            [(GHX, "        g, _ = self.grab_g_function(b_over_h)\n\n        if method == TimestepType.HYBRID:", "        if getattr(self, \"_g\", None) is None:\n            self._g, _ = self.grab_g_function(b_over_h)\n        g = self._g\n\n        if method == TimestepType.HYBRID:")], "R13.1"),
    Variant("keep_contour default mutated", "break",
            [("ghedesigner.domains", "    if no_go_boundaries is None:\n        no_go_boundaries = []\n\n    outer_rectangle", "    if no_go_boundaries is None:\n        no_go_boundaries = []\n        keep_contour.append(False)\n\n    outer_rectangle")], "R13.2"),
    Variant("module-level evaluation counter", "break",
            [(GHX, "class BaseGHE:", "EVALUATIONS = []\n\n\nclass BaseGHE:"),
             (GHX, "        b = self.B_spacing\n        b_over_h = b / self.bhe.b.H", "        EVALUATIONS.append(1)\n        b = self.B_spacing\n        b_over_h = b / self.bhe.b.H")], "R13.3"),
    Variant("random tie-break in the final selection", "break",
            [("ghedesigner.search_routines", "        idx = values.index(excess_of_interest)\n        selection_key = keys[idx]\n        self.initialize_ghe(\n            self.coordinates_domain[selection_key], self.sim_params.max_height, self.fieldDescriptors[selection_key]",
              "        import random\n\n        idx = values.index(excess_of_interest) if random.random() < 2 else 0\n        selection_key = keys[idx]\n        self.initialize_ghe(\n            self.coordinates_domain[selection_key], self.sim_params.max_height, self.fieldDescriptors[selection_key]")], "R13.4"),
    Variant("set_borehole reads the pipe type set by another setter", "break",
            [(M, "        radius = diameter / 2.0\n        self._borehole = GHEBorehole(height, buried_depth, radius, x=0.0, y=0.0)",
              "        radius = diameter / 2.0 if self.pipe_type is not None else diameter\n        self._borehole = GHEBorehole(height, buried_depth, radius, x=0.0, y=0.0)")], "R13.5"),
    Variant("search() evaluates the live GHE before initialising it", "break",
            [("ghedesigner.search_routines", "        if self.disp:\n            print(\"Do some initial checks before searching.\")", "        self.ghe.simulate(method=self.method)\n        if self.disp:\n            print(\"Do some initial checks before searching.\")")], "R13.6"),
    Variant("hourly axis built only when self.times is empty (repaired defect F8 returns)", "break",
            [(GHX, "            self.times = np.arange(1, n_hours + 1, 1)\n            t = self.times", "            if len(self.times) == 0:\n                self.times = np.arange(1, n_hours + 1, 1)\n            t = self.times")], "R13.1"),
    Variant("new attribute written then read inside one call", "benign",
            [(GHX, "        self.hp_eft = hp_eft\n        self.dTb = d_tb\n\n        return max(hp_eft), min(hp_eft)", "        self.hp_eft = hp_eft\n        self.dTb = d_tb\n        self.last_extremes = (max(hp_eft), min(hp_eft))\n\n        return self.last_extremes")]),
    Variant("local alias for the borehole in simulate", "benign",
            [(GHX, "        b = self.B_spacing\n        b_over_h = b / self.bhe.b.H", "        b = self.B_spacing\n        bh = self.bhe.b\n        b_over_h = b / bh.H")]),
]
