#!/bin/sh
# usage: tools/try_seed.sh <patch.diff> [props...]   - apply a seeded change to /repo, run the quick checks, undo it
# prints one line per check:  <prop> rc=<0|1|2> [first VIOLATION / ANALYSIS-ERROR line]
P="$1"; shift
PROPS="${*:-C01 C02 C03 C04 C05 C06 C07 C08 C09 C10 C11 C12 C13 C15 C17 C18 C19 C20}"
cd /verif || exit 9
if [ -n "$(git -C /repo status --porcelain)" ]; then echo "REFUSING: /repo is not clean"; exit 9; fi
git -C /repo apply "$P" || { echo "patch does not apply"; exit 9; }
for p in $PROPS; do
  out=$(./check "$p" --tier quick --no-evidence 2>&1 | grep -v "WARNING conda")
  rc=$?
  rc=$(printf '%s\n' "$out" | grep -q "^VIOLATION" && echo 1 || (printf '%s\n' "$out" | grep -q "^ANALYSIS-ERROR" && echo 2 || echo 0))
  first=$(printf '%s\n' "$out" | grep -E "VIOLATED at|^ANALYSIS-ERROR" | head -2 | cut -c1-230 | tr '\n' ' ')
  echo "$p rc=$rc $first"
done
git -C /repo checkout -- . ; git -C /repo status --porcelain | head -3
