"""C15 - the equivalent single U-tube preserves the exchanger's bulk properties (algebraic part).

Not decided: that the two root solves reach their targets (0.1 %) - numerical, and solve_root clamps
silently when the target is not bracketed.  Decided:
  R15.1  volumes: with n = 2 tubes of the equivalent U-tube,  n pi r_i'^2 = fluid volume  and
         n pi (r_o'^2 - r_i'^2) = pipe-wall volume (per metre);  u_tube_volumes gives n_tubes pi r_in^2 and
         n_tubes pi (r_out^2 - r_in^2) with n_tubes = 2 * nPipes;  concentric_tube_volumes gives the inner
         pipe bore plus the annulus, and the two pipe walls
  R15.2  a single U-tube converts to itself
  R15.3  targets and carried-over properties: the conductivity solve drives
         R_fp(equivalent) - (R_conv + R_pipe) of the original,  the grout solve drives
         Rb*(original) - Rb*(equivalent) and leaves the solved grout conductivity in the tube it returns;
         the equivalent tube is built with the original's mass flow, fluid, soil, pipe roughness and pipe
         rhoCp, its own deep-copied borehole and grout; both multi-pipe classes run
         volumes -> equivalent_single_u_tube -> match_effective_borehole_resistance and return that tube
  R15.4  the grout search re-evaluates Rb* for every trial conductivity (pygfunction's resistances are refreshed) -
         known finding F14 on the pinned tree
  R15.5  table rules: the two conductivity searches are bracketed widely enough ([k_p'/100, 10 k_p'], [0.01, 7.0] W/m-K)
         and stop within abs 2e-5 W/m-K / rel 1e-3 (the tolerance in force at the call, explicit or solve_root's default)
"""
from __future__ import annotations

import ast

from .. import sym
from ..model import AnalysisError, Program, attr_chain, bind_args, norm_stmt, walk_no_nested
from ..paths import Const, Engine, Hooks, Opaque, Seq, State, vkey
from ..report import Result
from ..selftest import Variant
from ..sym import Rat

PROP = "C15"
TITLE = "Equivalent single U-tube: volumes, identity for single U-tubes, solve targets, carried-over properties"
EXPLANATION = (
    "Normal forms (with sqrt(x)^2 = x) of the equivalent radii against the volumes they must preserve, of the two volume "
    "helpers against the geometric volumes of their shapes, of the two objective closures against their targets; "
    "argument flow into Pipe(...) / SingleUTube(...) and through the to_single methods."
)
ASSUMPTIONS = ["solve_root finds the root when it is bracketed (numerical, not decided)"]

BH = "ghedesigner.borehole_heat_exchangers"
PI = Rat.atom("pi")


def _straight(prog: Program, q: str, hooks=None, env=None):
    fi = prog.func(q)
    eng = Engine(prog, fi, hooks or Hooks())
    st = State()
    for p in fi.params():
        st.env[p] = Rat.atom(p)
    if env:
        st.env.update(env)
    fin = eng.run_function(st)
    return fi, eng, fin


def check(prog: Program, tier: str) -> Result:
    res = Result(PROP)
    # ---------------- R15.1 equivalent radii
    q = f"{BH}.GHEDesignerBoreholeWithMultiplePipes.equivalent_single_u_tube"

    class H(Hooks):
        def on_call(self, node, fname, args, kwargs, st, eng):
            if fname == "deepcopy" and len(args) == 1:
                return sym._plain_call("COPY", [args[0]]) if isinstance(args[0], Rat) else Opaque("copy")
            if fname == "Pipe.place_pipes":
                return Rat.atom("POS")
            if fname == "Pipe":
                pf = prog.func("ghedesigner.media.Pipe.__init__")
                st.emit("PIPE", {k: eng.eval(v, st) for k, v in bind_args(pf, node).items()}, node)
                return Rat.atom("NEW_PIPE")
            if fname == "SingleUTube":
                sf = prog.func(f"{BH}.SingleUTube.__init__")
                st.emit("TUBE", {k: eng.eval(v, st) for k, v in bind_args(sf, node).items()}, node)
                return Rat.atom("EQ")
            if fname == "solve_root":
                st.emit("SOLVE", (args, kwargs, node), node)
                return Rat.atom("ROOT")
            return None

    fi, eng, fin = _straight(prog, q, H())
    res.analysed(q)
    from ..model import unpinned_helper_calls

    hidden = unpinned_helper_calls(prog, fi, fi.node)
    if hidden:
        raise AnalysisError(f"{q}: part of the conversion is computed by {sorted(set(hidden))}, which the load-time inliner could not expand: the identities cannot be read off this function")
    fin = [f for f in fin if f.exit and f.exit[0] == "return"]
    if not fin:
        raise AnalysisError(f"{q}: no returning path")
    vf, vp = Rat.atom("vol_fluid"), Rat.atom("vol_pipe")
    for f in fin[:1]:
        pipes = [e for e in f.events if e.kind == "PIPE"]
        tubes = [e for e in f.events if e.kind == "TUBE"]
        if len(pipes) != 1 or len(tubes) != 1:
            raise AnalysisError(f"{q}: construction of the equivalent pipe / tube not found")
        pa, ta = pipes[0].data, tubes[0].data
        ri, ro = pa.get("r_in"), pa.get("r_out")
        n = (vf / (PI * ri ** 2)) if isinstance(ri, Rat) and not ri.is_zero() else None  # number of tubes the fluid volume is spread over
        okn = isinstance(n, Rat) and n.equals(Rat.const(2))
        res.ob("R15.1", f"the equivalent exchanger has n = 2 tubes (one U) (got {vkey(n)})", okn, prog.loc(fi, fi.node))
        if not okn:
            res.violation("R15.1", f"n|{vkey(n)}", prog.loc(fi, fi.node), q, f"the equivalent single U-tube is computed for n = {vkey(n)} tubes instead of 2")
        ok = isinstance(ri, Rat) and (Rat.const(2) * PI * ri ** 2).equals(vf)
        res.ob("R15.1", "fluid volume preserved: 2 pi r_i'^2 = vol_fluid", ok, prog.loc(fi, pipes[0].node))
        if not ok:
            res.violation("R15.1", f"fluid-volume|{vkey(ri)[:60]}", prog.loc(fi, pipes[0].node), q, f"the equivalent inner radius {vkey(ri)[:100]} does not give the two tubes the original fluid volume")
        ok = isinstance(ri, Rat) and isinstance(ro, Rat) and (Rat.const(2) * PI * (ro ** 2 - ri ** 2)).equals(vp)
        res.ob("R15.1", "pipe-wall volume preserved: 2 pi (r_o'^2 - r_i'^2) = vol_pipe", ok, prog.loc(fi, pipes[0].node))
        if not ok:
            res.violation("R15.1", f"pipe-volume|{vkey(ro)[:60]}", prog.loc(fi, pipes[0].node), q, f"the equivalent outer radius {vkey(ro)[:100]} does not preserve the pipe-wall volume")
        # carried-over properties
        ok = vkey(pa.get("roughness")) == "self.pipe.roughness" and vkey(pa.get("rho_cp")) == "self.pipe.rhoCp"
        res.ob("R15.3", "the equivalent pipe keeps the original roughness and rhoCp", ok, prog.loc(fi, pipes[0].node))
        if not ok:
            res.violation("R15.3", f"pipe-props|{vkey(pa.get('roughness'))}|{vkey(pa.get('rho_cp'))}", prog.loc(fi, pipes[0].node), q, f"the equivalent pipe is given roughness {vkey(pa.get('roughness'))} and rhoCp {vkey(pa.get('rho_cp'))}")
        want_t = {"m_flow_borehole": "self.m_flow_borehole", "fluid": "self.fluid", "soil": "self.soil", "pipe": "NEW_PIPE"}
        got_t = {k: vkey(ta.get(k)) for k in want_t}
        ok = got_t == want_t
        res.ob("R15.3", "the equivalent tube keeps the mass flow, fluid and soil of the original and uses the new pipe", ok, prog.loc(fi, tubes[0].node))
        if not ok:
            res.violation("R15.3", f"tube-args|{sorted(got_t.items())}", prog.loc(fi, tubes[0].node), q, f"the equivalent SingleUTube is built with {got_t}; expected {want_t}")
        ok = vkey(ta.get("grout")) == "COPY(self.grout)" and "COPY(self.b)" in vkey(ta.get("_borehole"))
        res.ob("R15.3", "grout and borehole of the equivalent tube are deep copies (the original is not altered by the solves)", ok, prog.loc(fi, tubes[0].node))
        if not ok:
            res.violation("R15.3", f"copies|{vkey(ta.get('grout'))}|{vkey(ta.get('_borehole'))[:40]}", prog.loc(fi, tubes[0].node), q,
                          f"the equivalent tube shares grout / borehole with the original ({vkey(ta.get('grout'))}, {vkey(ta.get('_borehole'))[:40]}): the grout solve would change the original exchanger")
        ok = isinstance(f.exit[1], Rat) and f.exit[1] == Rat.atom("EQ")
        res.ob("R15.3", "equivalent_single_u_tube returns the tube it built and tuned", ok, prog.loc(fi, f.exit[2]))
        if not ok:
            res.violation("R15.3", "return-eq", prog.loc(fi, f.exit[2]), q, "equivalent_single_u_tube does not return the equivalent tube")
        solves = [e for e in f.events if e.kind == "SOLVE"]
        obj_name = ast.unparse(solves[0].data[2].args[1]) if len(solves) == 1 and len(solves[0].data[2].args) >= 2 else None
        ok = obj_name is not None and f"{q}.<locals>.{obj_name}" in prog.funcs
        res.ob("R15.3", f"the pipe conductivity is solved with a local objective ({obj_name})", ok, prog.loc(fi, solves[0].node) if solves else prog.loc(fi, fi.node))
        if not ok:
            res.violation("R15.3", "no-conductivity-solve", prog.loc(fi, fi.node), q, "the pipe conductivity of the equivalent tube is no longer solved for")
    # objective closures
    oq = f"{q}.<locals>.{obj_name}"
    ofi = prog.funcs.get(oq)
    if ofi is None:
        raise AnalysisError(f"{oq} not found")
    # the closure's view of the equivalent tube: the local of the outer function bound to SingleUTube(...)
    TUBE = next((s_.targets[0].id for s_ in ast.walk(fi.node) if isinstance(s_, ast.Assign) and len(s_.targets) == 1 and isinstance(s_.targets[0], ast.Name)
                 and isinstance(s_.value, ast.Call) and attr_chain(s_.value.func) == "SingleUTube"), None)
    if TUBE is None:
        raise AnalysisError(f"{q}: the local holding the equivalent SingleUTube was not found")

    class HO(Hooks):
        def on_call(self, node, fname, args, kwargs, st, eng):
            if fname and fname.endswith("calc_fluid_pipe_resistance"):
                st.emit("RECALC", fname, node)
                return Rat.atom("R_FP_NEW")
            if fname and fname.endswith("calc_effective_borehole_resistance"):
                return Rat.atom("RB:" + fname.rsplit(".", 1)[0])
            return None

        def on_assign(self, key, val, stmt, st, eng):
            st.emit("SET", (key, val), stmt)

    eng = Engine(prog, ofi, HO())
    st = State()
    for p in ofi.params():
        st.env[p] = Rat.atom(p)
    for nm in ("resist_conv", "resist_pipe"):
        st.env[nm] = Rat.atom(nm)
    st.env[TUBE] = Rat.atom("eq_single_u_tube")
    f = [x for x in eng.run_function(st) if x.exit and x.exit[0] == "return"][0]
    rv = f.exit[1]
    want = Rat.atom("eq_single_u_tube.R_fp") - (Rat.atom("resist_conv") + Rat.atom("resist_pipe"))
    sets = [e.data for e in f.events if e.kind == "SET"]
    rec = [e for e in f.events if e.kind == "RECALC"]
    ok = isinstance(rv, Rat) and rv.equals(want) and any(k in ("eq_single_u_tube.pipe.k", f"{TUBE}.pipe.k") and v == Rat.atom(ofi.params()[0]) for k, v in sets) and bool(rec)
    res.ob("R15.3", "conductivity objective: set pipe.k, recompute, return R_fp(equivalent) - (R_conv + R_pipe)", ok, prog.loc(ofi, ofi.node))
    if not ok:
        res.violation("R15.3", f"objective-k|{vkey(rv)[:80]}", prog.loc(ofi, ofi.node), oq, f"the conductivity objective returns {vkey(rv)[:120]} (sets {[(k, vkey(v)) for k, v in sets]}); expected R_fp of the re-evaluated equivalent tube minus (resist_conv + resist_pipe)")
    mq = f"{BH}.GHEDesignerBoreholeWithMultiplePipes.match_effective_borehole_resistance"
    mfi = prog.func(mq)
    res.analysed(mq)
    oq2 = f"{mq}.<locals>.objective_resistance"
    o2 = prog.funcs.get(oq2)
    if o2 is None:
        raise AnalysisError(f"{oq2} not found")
    eng = Engine(prog, o2, HO())
    st = State()
    for p in o2.params():
        st.env[p] = Rat.atom(p)
    tube = [p for p in mfi.params() if p != "self"][0]
    st.env[tube] = Rat.atom(tube)
    f = [x for x in eng.run_function(st) if x.exit and x.exit[0] == "return"][0]
    rv = f.exit[1]
    want = Rat.atom("RB:self") - Rat.atom(f"RB:{tube}")
    sets = dict(e.data for e in f.events if e.kind == "SET")
    kin = Rat.atom(o2.params()[0])
    ok = isinstance(rv, Rat) and (rv.equals(want) or rv.equals(-want)) and sets.get(f"{tube}.k_g") == kin and sets.get(f"{tube}.grout.k") == kin
    res.ob("R15.3", "grout objective: set the trial conductivity on the equivalent tube, return Rb*(original) - Rb*(equivalent)", ok, prog.loc(o2, o2.node))
    if not ok:
        res.violation("R15.3", f"objective-kg|{vkey(rv)[:80]}", prog.loc(o2, o2.node), oq2, f"the grout objective returns {vkey(rv)[:120]} after setting {[(k, vkey(v)) for k, v in sets.items()]}; expected Rb*(self) - Rb*({tube}) with the trial conductivity applied to {tube}")

    class HM(Hooks):
        def on_call(self, node, fname, args, kwargs, st, eng):
            if fname == "solve_root":
                st.emit("SOLVE", node, node)
                return Rat.atom("KG_ROOT")
            return None

        def on_assign(self, key, val, stmt, st, eng):
            st.emit("SET", (key, val), stmt)

    eng = Engine(prog, mfi, HM())
    st = State()
    for p in mfi.params():
        st.env[p] = Rat.atom(p)
    f = [x for x in eng.run_function(st) if x.exit and x.exit[0] == "return"][0]
    sets = {}
    after = False
    for e in f.events:
        if e.kind == "SOLVE":
            after = True
        elif e.kind == "SET" and after:
            sets[e.data[0]] = e.data[1]
    ok = sets.get(f"{tube}.k_g") == Rat.atom("KG_ROOT") and sets.get(f"{tube}.grout.k") == Rat.atom("KG_ROOT") and f.exit[1] == Rat.atom(tube)
    res.ob("R15.3", "the solved grout conductivity is left on the returned equivalent tube", ok, prog.loc(mfi, f.exit[2]))
    if not ok:
        res.violation("R15.3", f"kg-applied|{[(k, vkey(v)) for k, v in sets.items()]}", prog.loc(mfi, f.exit[2]), mq, "after the grout solve the root is not written to the equivalent tube (k_g and grout.k), or another object is returned")
    sv = [e.data for e in f.events if e.kind == "SOLVE"]
    ok = len(sv) == 1 and len(sv[0].args) >= 2 and ast.unparse(sv[0].args[1]) == "objective_resistance"
    if not ok:
        res.violation("R15.3", "no-grout-solve", prog.loc(mfi, mfi.node), mq, "the grout conductivity is no longer solved with objective_resistance")

    # ---------------- volume helpers
    q = f"{BH}.MultipleUTube.u_tube_volumes"
    fi, eng, fin = _straight(prog, q)
    res.analysed(q)
    f = [x for x in fin if x.exit and x.exit[0] == "return"][0]
    rv = f.exit[1]
    if not (isinstance(rv, Seq) and len(rv.items) == 4 and all(isinstance(x, Rat) for x in rv.items)):
        raise AnalysisError(f"{q}: return value not understood")
    nt = Rat.const(2) * Rat.atom("self.nPipes")
    rin, rout = Rat.atom("self.r_in"), Rat.atom("self.r_out")
    ok = rv.items[0].equals(nt * PI * rin ** 2)
    res.ob("R15.1", "u_tube_volumes: fluid volume = (2 nPipes) pi r_in^2", ok, prog.loc(fi, f.exit[2]))
    if not ok:
        res.violation("R15.1", f"utube-fluid|{rv.items[0].key()[:60]}", prog.loc(fi, f.exit[2]), q, f"the fluid volume of the multiple U-tube is {rv.items[0].key()[:100]} instead of 2 nPipes pi r_in^2")
    ok = rv.items[1].equals(nt * PI * (rout ** 2 - rin ** 2))
    res.ob("R15.1", "u_tube_volumes: pipe volume = (2 nPipes) pi (r_out^2 - r_in^2)", ok, prog.loc(fi, f.exit[2]))
    if not ok:
        res.violation("R15.1", f"utube-pipe|{rv.items[1].key()[:60]}", prog.loc(fi, f.exit[2]), q, f"the pipe-wall volume of the multiple U-tube is {rv.items[1].key()[:100]} instead of 2 nPipes pi (r_out^2 - r_in^2)")
    ok = rv.items[3].equals(sym.log(rout / rin) / (nt * Rat.const(2) * PI * Rat.atom("self.pipe.k")))
    res.ob("R15.3", "u_tube_volumes: pipe resistance = ln(r_out / r_in) / (n 2 pi k_p) (tubes in parallel)", ok, prog.loc(fi, f.exit[2]))
    if not ok:
        res.violation("R15.3", f"utube-rpipe|{rv.items[3].key()[:60]}", prog.loc(fi, f.exit[2]), q, f"the combined pipe resistance is {rv.items[3].key()[:120]}")
    # convective resistance: the exchanger's OWN film coefficient (set by calc_fluid_pipe_resistance from the per-tube flow of
    # its arrangement) over the total inner surface the code uses
    rc_u = rv.items[2]
    n_t = Rat.const(2) * Rat.atom("self.nPipes")
    area_u = n_t * PI * (Rat.const(2) * rin) ** 2
    ok = isinstance(rc_u, Rat) and rc_u.equals(Rat.const(1) / (Rat.atom("self.h_f") * area_u))
    res.ob("R15.3", "u_tube_volumes: convective resistance = 1 / (h_f * inner surface) with the exchanger's own film coefficient self.h_f", ok, prog.loc(fi, f.exit[2]))
    if not ok:
        res.violation("R15.3", f"utube-rconv|{vkey(rc_u)[:60]}", prog.loc(fi, f.exit[2]), q,
                      f"the convective resistance handed to the equivalent tube is {vkey(rc_u)[:140]} instead of 1 / (self.h_f * area): a film coefficient recomputed here does not know the "
                      "per-tube flow of the arrangement (series tubes carry the whole borehole flow, parallel ones half)")
    cfr_u = prog.method(f"{BH}.MultipleUTube", "calc_fluid_pipe_resistance")
    flows = [ast.unparse(c.args[0]) for c in ast.walk(cfr_u.node) if isinstance(c, ast.Call) and (attr_chain(c.func) or "").endswith("convective_heat_transfer_coefficient_circular_pipe") and c.args]
    ok = flows == ["self.m_flow_pipe"]
    res.ob("R15.3", f"MultipleUTube.calc_fluid_pipe_resistance computes h_f from the per-tube flow self.m_flow_pipe ({flows})", ok, prog.loc(cfr_u, cfr_u.node))
    if not ok:
        res.violation("R15.3", f"utube-hf-flow|{flows}", prog.loc(cfr_u, cfr_u.node), cfr_u.qualname, f"the film coefficient of the multiple U-tube is computed for {flows} instead of the per-tube flow self.m_flow_pipe")
    q = f"{BH}.CoaxialPipe.concentric_tube_volumes"
    fi, eng, fin = _straight(prog, q, env={"self.r_inner": Seq([Rat.atom("RII"), Rat.atom("RIO")], "list"), "self.r_outer": Seq([Rat.atom("ROI"), Rat.atom("ROO")], "list")})
    res.analysed(q)
    f = [x for x in fin if x.exit and x.exit[0] == "return"][0]
    rv = f.exit[1]
    if not (isinstance(rv, Seq) and len(rv.items) == 4 and all(isinstance(x, Rat) for x in rv.items[:2])):
        raise AnalysisError(f"{q}: return value not understood")
    rii, rio, roi, roo = (Rat.atom(x) for x in ("RII", "RIO", "ROI", "ROO"))
    ok = rv.items[0].equals(PI * (rii ** 2 + roi ** 2 - rio ** 2))
    res.ob("R15.1", "concentric_tube_volumes: fluid volume = inner bore + annulus = pi (r_ii^2 + r_oi^2 - r_io^2)", ok, prog.loc(fi, f.exit[2]))
    if not ok:
        res.violation("R15.1", f"coax-fluid|{rv.items[0].key()[:60]}", prog.loc(fi, f.exit[2]), q, f"the coaxial fluid volume is {rv.items[0].key()[:100]}")
    ok = rv.items[1].equals(PI * (rio ** 2 - rii ** 2 + roo ** 2 - roi ** 2))
    res.ob("R15.1", "concentric_tube_volumes: pipe volume = the two pipe walls", ok, prog.loc(fi, f.exit[2]))
    if not ok:
        res.violation("R15.1", f"coax-pipe|{rv.items[1].key()[:60]}", prog.loc(fi, f.exit[2]), q, f"the coaxial pipe-wall volume is {rv.items[1].key()[:100]}")

    # resistances handed to the equivalent tube: film of the annulus at the outer pipe's inner wall, wall of the OUTER pipe
    rc_, rp_ = rv.items[2], rv.items[3]
    k_out = Rat.atom("self.pipe.k[1]")
    ok = isinstance(rp_, Rat) and rp_.equals(sym.log(roo / roi) / (Rat.const(2) * PI * k_out))
    res.ob("R15.3", "concentric_tube_volumes: pipe resistance = ln(r_oo / r_oi) / (2 pi k_outer pipe)  (pipe.k = (inner, outer))", ok, prog.loc(fi, f.exit[2]))
    if not ok:
        res.violation("R15.3", f"coax-rpipe|{vkey(rp_)[:60]}", prog.loc(fi, f.exit[2]), q,
                      f"the pipe resistance handed to the equivalent tube is {vkey(rp_)[:120]} instead of the wall of the outer pipe, ln(r_out_out / r_out_in) / (2 pi pipe.k[1])")
    ok = isinstance(rc_, Rat) and rc_.equals(Rat.const(1) / (Rat.atom("self.h_f_a_in") * Rat.const(2) * PI * roi))
    res.ob("R15.3", "concentric_tube_volumes: convective resistance = 1 / (h(annulus, outer wall) * 2 pi r_oi)", ok, prog.loc(fi, f.exit[2]))
    if not ok:
        res.violation("R15.3", f"coax-rconv|{vkey(rc_)[:60]}", prog.loc(fi, f.exit[2]), q,
                      f"the convective resistance handed to the equivalent tube is {vkey(rc_)[:120]} instead of 1 / (h_f_a_in * 2 pi r_out_in)")
    # sibling agreement: calc_fluid_pipe_resistance pairs the same radii with the same conductivity index
    cfr = prog.method(f"{BH}.CoaxialPipe", "calc_fluid_pipe_resistance")
    pairs = {}
    for c in ast.walk(cfr.node):
        if isinstance(c, ast.Call) and (attr_chain(c.func) or "").endswith("conduction_thermal_resistance_circular_pipe") and len(c.args) == 3:
            pairs[(ast.unparse(c.args[0]), ast.unparse(c.args[1]))] = ast.unparse(c.args[2])
    ok = pairs.get(("self.r_out_in", "self.r_out_out")) == "self.pipe.k[1]" and pairs.get(("self.r_in_in", "self.r_in_out")) == "self.pipe.k[0]"
    res.ob("R15.3", f"CoaxialPipe.calc_fluid_pipe_resistance pairs inner radii with pipe.k[0] and outer radii with pipe.k[1] ({pairs})", ok, prog.loc(cfr, cfr.node))
    if not ok:
        res.violation("R15.3", f"coax-k-index|{sorted(pairs.items())}", prog.loc(cfr, cfr.node), cfr.qualname, f"the coaxial pipe conduction resistances pair radii and conductivities as {pairs}")

    # ---------------- to_single
    q = f"{BH}.SingleUTube.to_single"
    fi = prog.func(q)
    res.analysed(q)
    rets = [r for r in ast.walk(fi.node) if isinstance(r, ast.Return)]
    ok = len(rets) == 1 and ast.unparse(rets[0].value) == "self"
    res.ob("R15.2", "SingleUTube.to_single returns self", ok, prog.loc(fi, fi.node))
    if not ok:
        res.violation("R15.2", "single-not-identity", prog.loc(fi, fi.node), q, f"a single U-tube no longer converts to itself ({[ast.unparse(r.value) for r in rets]})")
    for cls, vol in (("MultipleUTube", "u_tube_volumes"), ("CoaxialPipe", "concentric_tube_volumes")):
        q = f"{BH}.{cls}.to_single"
        fi = prog.func(q)
        res.analysed(q)

        class HT(Hooks):
            def on_call(self, node, fname, args, kwargs, st, eng):
                if fname == f"self.{vol}":
                    st.emit("VOL", None, node)
                    return Seq([Rat.atom(x) for x in ("VF", "VP", "RC", "RP")], "tuple")
                if fname == "self.equivalent_single_u_tube":
                    st.emit("EQUIV", args, node)
                    return Rat.atom("PRELIM")
                if fname == "self.match_effective_borehole_resistance":
                    st.emit("MATCH", args, node)
                    return args[0] if args else Rat.atom("?")
                return None

        eng = Engine(prog, fi, HT())
        f = [x for x in eng.run_function(State()) if x.exit and x.exit[0] == "return"][0]
        kinds = [e.kind for e in f.events if e.kind in ("VOL", "EQUIV", "MATCH")]
        eq = [e for e in f.events if e.kind == "EQUIV"]
        mt = [e for e in f.events if e.kind == "MATCH"]
        ok = kinds == ["VOL", "EQUIV", "MATCH"] and [vkey(a) for a in eq[0].data] == ["VF", "VP", "RC", "RP"] and [vkey(a) for a in mt[0].data] == ["PRELIM"] and f.exit[1] == Rat.atom("PRELIM")
        res.ob("R15.3", f"{cls}.to_single: {vol} -> equivalent_single_u_tube(vol_fluid, vol_pipe, R_conv, R_pipe) -> match_effective_borehole_resistance -> that tube", ok, prog.loc(fi, fi.node))
        if not ok:
            res.violation("R15.3", f"{cls}|to_single|{kinds}", prog.loc(fi, fi.node), q,
                          f"{cls}.to_single runs {kinds} with arguments {[vkey(a) for a in eq[0].data] if eq else None} and returns {vkey(f.exit[1])}; "
                          f"expected volumes -> equivalent tube -> grout match, returning the matched tube")
    _check_recompute(prog, res)
    _check_brackets(prog, res)
    _check_tolerances(prog, res)
    return res


def _default_bracket(prog: Program, x0):
    """(lower, upper) that utilities.solve_root searches between when neither is given and the starting value is x0: what reaches
    its bracketing call on every path, read off its own code"""
    sr = prog.func("ghedesigner.utilities.solve_root")

    class H(Hooks):
        def on_call(self, node, fname, args, kwargs, st, eng):
            if fname == "objective_function" and len(args) == 1:
                st.emit("OBJ", args[0], node)
                return Rat.atom(f"OBJ({vkey(args[0])})")
            if fname == "brentq":
                st.emit("BRENT", tuple(args), node)
                return Rat.atom("BRENTQ_ROOT")
            return None

    st = State()
    for p_ in sr.params():
        st.env[p_] = Rat.atom(p_)
    st.env["x"] = x0
    st.env["lower"] = Const(None)
    st.env["upper"] = Const(None)
    found = set()
    vals = None
    for f_ in Engine(prog, sr, H()).run_function(st):
        for ev in f_.events:
            if ev.kind == "BRENT" and len(ev.data) >= 3 and isinstance(ev.data[1], Rat) and isinstance(ev.data[2], Rat):
                found.add((ev.data[1].key(), ev.data[2].key()))
                vals = (ev.data[1], ev.data[2])
    if len(found) != 1:
        return None, None
    return vals


def _check_brackets(prog: Program, res: Result):
    """R15.5 (table rule): the two root searches must be given brackets that contain the root for the flows and grouts the tool
    accepts.  Recorded domain facts: for laminar tube flow the matching pipe conductivity lies at 0.03-0.05 of the estimate
    k_p' (turbulent: 0.3-1.5), so the bracket must reach down to k_p'/100 and up to 10 k_p'; grout conductivities of
    practice span 0.3-3 W/m-K and the matched value moves by up to a factor ~3, so [0.01, 7.0] is required.  Wider is fine."""
    eq = prog.func(f"{BH}.GHEDesignerBoreholeWithMultiplePipes.equivalent_single_u_tube")
    sr = prog.func("ghedesigner.utilities.solve_root")
    eng = Engine(prog, eq, Hooks())
    calls = [c for c in ast.walk(eq.node) if isinstance(c, ast.Call) and attr_chain(c.func) == "solve_root"]
    if len(calls) != 1:
        raise AnalysisError(f"{eq.qualname}: solve_root call not found")
    b = bind_args(sr, calls[0])
    st = State()
    tube = next((s_.targets[0].id for s_ in ast.walk(eq.node) if isinstance(s_, ast.Assign) and len(s_.targets) == 1 and isinstance(s_.targets[0], ast.Name)
                 and isinstance(s_.value, ast.Call) and attr_chain(s_.value.func) == "SingleUTube"), None)
    if tube is None:
        raise AnalysisError(f"{eq.qualname}: equivalent tube not found")
    st.env[tube] = Rat.atom("T")
    for s_ in eq.node.body:
        if isinstance(s_, ast.Assign) and len(s_.targets) == 1 and isinstance(s_.targets[0], ast.Name) and any(isinstance(x, ast.Name) and x.id == tube for x in ast.walk(s_.value)) \
                and not isinstance(s_.value, ast.Call):
            eng._s_Assign(s_, st)
    K = Rat.atom("T.pipe.k")

    def ratio(v):
        r = (v / K) if isinstance(v, Rat) else None
        return float(r.const_value()) if r is not None and r.is_const() else None

    # the bracket on EVERY path that reaches the search (a bound that is re-assigned under a condition - a warm start, a
    # clamp - counts with that value)
    class HB(Hooks):
        def on_call(self, node, fname, args, kwargs, st_, eng_):
            if fname == "SingleUTube":
                return Rat.atom("T")
            if fname == "solve_root":
                bb = bind_args(sr, node)
                st_.emit("SOLVE", tuple(eng_.eval(bb[k_], st_) if k_ in bb else None for k_ in ("lower", "upper", "x")), node)
                return Rat.atom("ROOT")
            return None

    e3 = Engine(prog, eq, HB())
    s3 = State()
    for p_ in eq.params():
        s3.env[p_] = Rat.atom(p_)
    n_paths = 0
    seen_b = set()
    for f_ in e3.run_function(s3):
        if f_.exit is not None and f_.exit[0] == "return" and not any(ev.kind == "SOLVE" for ev in f_.events):
            # must-pass-through: the equivalent tube is handed out only after its pipe conductivity has been matched
            trail = " & ".join(k for k, tr, ln in f_.trail)[:120]
            res.ob("R15.5", "every path that returns the equivalent tube runs the pipe-conductivity search", False, prog.loc(eq, f_.exit[2]))
            res.violation("R15.5", f"search-skipped|{trail[:60]}", prog.loc(eq, f_.exit[2]), eq.qualname,
                          f"on the path [{trail}] the equivalent tube is returned without the pipe-conductivity search: it keeps the analytic estimate, whose R_conv + R_pipe is off by whatever that test tolerates")
        for ev in f_.events:
            if ev.kind != "SOLVE":
                continue
            n_paths += 1
            lo, hi, x0 = ev.data
            if (lo is None or hi is None) and isinstance(x0, Rat):
                # a bound that is not handed over is the one solve_root fills in itself from the starting value
                dlo, dhi = _default_bracket(prog, x0)
                lo, hi = (dlo if lo is None else lo), (dhi if hi is None else hi)
            rl, rh = ratio(lo), ratio(hi)
            ok = rl is not None and rh is not None and 0 < rl <= 0.01 + 1e-12 and rh >= 10 - 1e-9 and isinstance(x0, Rat) and x0.equals(K)
            shown = (f"[{rl} k_p', {rh} k_p']" if rl is not None and rh is not None else f"[{lo.key()[:50] if isinstance(lo, Rat) else lo}, {hi.key()[:50] if isinstance(hi, Rat) else hi}]")
            if (shown, ok) in seen_b:
                continue
            seen_b.add((shown, ok))
            trail = " & ".join(k for k, tr, ln in f_.trail)[:80]
            res.ob("R15.5", f"pipe-conductivity search: bracket {shown} contains [k_p'/100, 10 k_p'], started at k_p'" + (f" (path [{trail}])" if trail else ""), ok, prog.loc(eq, ev.node))
            if not ok:
                res.violation("R15.5", f"bracket-kp|{shown[:60]}", prog.loc(eq, ev.node), eq.qualname,
                              f"the pipe-conductivity root search runs on {shown}" + (f" on the path [{trail}]" if trail else "") + ": for laminar flow the root lies at 0.03-0.05 k_p', it is then not "
                              "bracketed, solve_root falls back to a bound and the equivalent tube keeps a conductivity that does not reproduce R_conv + R_pipe")
    if n_paths == 0:
        raise AnalysisError(f"{eq.qualname}: no path reaches the conductivity search")
    mq = f"{BH}.GHEDesignerBoreholeWithMultiplePipes.match_effective_borehole_resistance"
    mfi = prog.func(mq)
    calls = [c for c in ast.walk(mfi.node) if isinstance(c, ast.Call) and attr_chain(c.func) == "solve_root"]
    if len(calls) != 1:
        raise AnalysisError(f"{mq}: solve_root call not found")
    b = bind_args(sr, calls[0])
    e2 = Engine(prog, mfi, Hooks())
    s2 = State()
    for s_ in mfi.node.body:
        if isinstance(s_, ast.Assign) and len(s_.targets) == 1 and isinstance(s_.targets[0], ast.Name) and isinstance(s_.value, ast.Constant):
            e2._s_Assign(s_, s2)
    lo, hi = (e2.eval(b[k_], s2) if k_ in b else None for k_ in ("lower", "upper"))
    fl = float(lo.const_value()) if isinstance(lo, Rat) and lo.is_const() else None
    fh = float(hi.const_value()) if isinstance(hi, Rat) and hi.is_const() else None
    ok = fl is not None and fh is not None and 0 < fl <= 0.01 + 1e-12 and fh >= 7.0 - 1e-9
    res.ob("R15.5", f"grout-conductivity search: bracket [{fl}, {fh}] W/m-K contains [0.01, 7.0]", ok, prog.loc(mfi, calls[0]))
    if not ok:
        res.violation("R15.5", f"bracket-kg|{fl}|{fh}", prog.loc(mfi, calls[0]), mq, f"the grout-conductivity root search runs on [{fl}, {fh}] W/m-K instead of at least [0.01, 7.0]: matched conductivities outside it are silently replaced by a bound")


def _check_tolerances(prog: Program, res: Result):
    """R15.5 (table rule, continued): the two conductivity searches stop within the accuracy the property asks for.  Recorded
    domain fact: matched pipe conductivities go down to ~0.02 W/m-K (laminar flow, viscous antifreeze); 0.1 % of that is
    2e-5 W/m-K, so the absolute tolerance in force at the call (explicit, or solve_root's default) must not exceed 2e-5 and the
    relative one 1e-3.  (GHE.size passes its own tolerances; these two calls rely on the defaults.)"""
    sr = prog.func("ghedesigner.utilities.solve_root")
    dflt = sr.defaults()
    n = 0
    for mname in ("equivalent_single_u_tube", "match_effective_borehole_resistance"):
        fi = prog.func(f"{BH}.GHEDesignerBoreholeWithMultiplePipes.{mname}")
        for c in [c for c in ast.walk(fi.node) if isinstance(c, ast.Call) and attr_chain(c.func) == "solve_root"]:
            b = bind_args(sr, c)
            vals = {}
            for k_ in ("abs_tol", "rel_tol"):
                e_ = b.get(k_, dflt.get(k_))
                try:
                    vals[k_] = float(ast.literal_eval(e_)) if e_ is not None else None
                except Exception:
                    vals[k_] = None
            if vals["abs_tol"] is None or vals["rel_tol"] is None:
                raise AnalysisError(f"{fi.qualname}: tolerances of the conductivity search are not literals")
            n += 1
            ok = 0 < vals["abs_tol"] <= 2e-5 and 0 < vals["rel_tol"] <= 1e-3
            src = "explicit" if ("abs_tol" in b or "rel_tol" in b) else "solve_root's defaults"
            res.ob("R15.5", f"{mname}: the conductivity search stops within abs {vals['abs_tol']:g} W/m-K / rel {vals['rel_tol']:g} ({src}) - at most 2e-5 / 1e-3", ok, prog.loc(fi, c))
            if not ok:
                res.violation("R15.5", f"tolerance|{mname}|{vals['abs_tol']:g}|{vals['rel_tol']:g}", prog.loc(fi, c), fi.qualname,
                              f"the conductivity search of {mname} stops within abs {vals['abs_tol']:g} W/m-K / rel {vals['rel_tol']:g} ({src}): for matched conductivities near 0.02 W/m-K (laminar flow) "
                              "that is several per cent, so the equivalent tube no longer reproduces R_conv + R_pipe")
    res.count("conductivity_searches", n)
    res.floor("conductivity_searches", 2)


def _pyg_writers_of(attr: str):
    """methods of the installed pygfunction pipes module that assign self.<attr>  -> (set of method names, where) or (None, why)"""
    import glob

    for pat in ("/venv/lib/python3*/site-packages/pygfunction/pipes.py", "/usr/lib/python3*/site-packages/pygfunction/pipes.py",
                "/usr/local/lib/python3*/site-packages/pygfunction/pipes.py"):
        for path in sorted(glob.glob(pat)):
            try:
                tree = ast.parse(open(path, encoding="utf-8").read())
            except (OSError, SyntaxError):
                continue
            out = set()
            for c in ast.walk(tree):
                if isinstance(c, ast.ClassDef):
                    for f in c.body:
                        if isinstance(f, ast.FunctionDef):
                            for n in ast.walk(f):
                                if isinstance(n, (ast.Assign, ast.AugAssign)):
                                    for t in (n.targets if isinstance(n, ast.Assign) else [n.target]):
                                        if attr_chain(t) == f"self.{attr}":
                                            out.add(f.name)
            return out, path
    return None, "pygfunction source not found"


def _check_recompute(prog: Program, res: Result):
    """R15.4: inside each solve's objective, the quantity that is compared depends on the parameter that is varied.
    The effective borehole resistance is computed by pygfunction from the delta-circuit resistances self._Rd; in the installed
    pygfunction those are assigned only by update_thermal_resistances (parsed on every run).  So after the objective writes a
    conductivity of the tube and before it reads that tube's resistance, it must call the recomputation on the same tube:
    calc_fluid_pipe_resistance() for R_fp (it reads pipe.k and writes R_fp - checked on the package's own code),
    update_thermal_resistances(<tube>.R_fp) for Rb*."""
    writers, where = _pyg_writers_of("_Rd")
    if writers is None:
        res.notes.append(f"R15.4: {where}; documented pygfunction >= 2.2 behaviour assumed: _Rd is assigned by update_thermal_resistances only")
        writers = {"update_thermal_resistances"}
    refreshers = writers - {"__init__"}
    res.ob("R15.4", f"pygfunction model: the delta-circuit resistances behind Rb* are (re)assigned only by {sorted(refreshers)} (parsed from {where.split('site-packages/')[-1]})",
           refreshers == {"update_thermal_resistances"}, where)
    if refreshers != {"update_thermal_resistances"}:
        raise AnalysisError(f"pygfunction: self._Rd is assigned by {sorted(writers)} - the recomputation rule does not know this version")
    mq = f"{BH}.GHEDesignerBoreholeWithMultiplePipes.match_effective_borehole_resistance"
    mfi = prog.func(mq)
    tube = [p for p in mfi.params() if p != "self"][0]
    objs = [f for q_, f in prog.funcs.items() if q_.startswith(mq + ".<locals>.")]
    n_checked = 0
    for ofi in objs:
        # ordered events in the objective: writes of <tube>.k_g / <tube>.grout.k, refresh calls, Rb* reads on <tube>
        ev = []
        for n in ast.walk(ofi.node):
            if isinstance(n, ast.Assign):
                for t in n.targets:
                    c = attr_chain(t) or ""
                    if c in (f"{tube}.k_g", f"{tube}.grout.k"):
                        ev.append((n.lineno, "write", c, n))
            if isinstance(n, ast.Call):
                c = attr_chain(n.func) or ""
                if c == f"{tube}.update_thermal_resistances":
                    arg_ok = len(n.args) == 1 and ast.unparse(n.args[0]) == f"{tube}.R_fp"
                    ev.append((n.lineno, "refresh" if arg_ok else "refresh-wrong-arg", c, n))
                if c == f"{tube}.calc_effective_borehole_resistance":
                    ev.append((n.lineno, "read", c, n))
        ev.sort(key=lambda e: e[0])
        reads = [e for e in ev if e[1] == "read"]
        for r in reads:
            n_checked += 1
            last_write = max((e[0] for e in ev if e[1] == "write" and e[0] < r[0]), default=None)
            wrote_kg = any(e[1] == "write" and e[2].endswith(".k_g") and e[0] < r[0] for e in ev)
            refreshed = last_write is not None and any(e[1] == "refresh" and last_write < e[0] < r[0] for e in ev)
            ok = wrote_kg and refreshed
            res.ob("R15.4", f"{ofi.name}: the equivalent tube's Rb* is read after its grout conductivity (k_g) was set AND its delta-circuit resistances were rebuilt from it", ok, prog.loc(ofi, r[3]))
            if not ok:
                res.violation("R15.4", f"stale-rb|{ofi.name}|{'no-kg-write' if not wrote_kg else 'no-refresh'}", prog.loc(ofi, r[3]), ofi.qualname,
                              f"{ofi.name} varies the grout conductivity of {tube} and then reads calc_effective_borehole_resistance() without "
                              f"{tube}.update_thermal_resistances({tube}.R_fp) in between: pygfunction computes Rb* from self._Rd, which only that call rebuilds, "
                              "so the objective does not depend on the conductivity, the root is never bracketed and the solve ends on a bound (Rb* of the equivalent tube is not matched)")
    if not n_checked:
        raise AnalysisError(f"{mq}: no objective reads the equivalent tube's effective resistance")
    # the solved value is applied and the circuit rebuilt before the tube is handed back
    ev = []
    for n in walk_no_nested(mfi.node):
        if isinstance(n, ast.Assign):
            for t in n.targets:
                if (attr_chain(t) or "") == f"{tube}.k_g":
                    ev.append((n.lineno, "write", n))
        if isinstance(n, ast.Call) and (attr_chain(n.func) or "") == f"{tube}.update_thermal_resistances" and len(n.args) == 1 and ast.unparse(n.args[0]) == f"{tube}.R_fp":
            ev.append((n.lineno, "refresh", n))
    lw = max((e[0] for e in ev if e[1] == "write"), default=None)
    ok = lw is not None and any(e[1] == "refresh" and e[0] > lw for e in ev)
    res.ob("R15.4", "after the solve the root is written to k_g and the delta-circuit resistances are rebuilt from it before the tube is returned", ok, prog.loc(mfi, mfi.node))
    if not ok:
        res.violation("R15.4", "stale-rb|final", prog.loc(mfi, mfi.node), mq,
                      f"match_effective_borehole_resistance returns {tube} with k_g set to the root but without rebuilding its delta-circuit resistances: its Rb* still belongs to the grout conductivity of the last rebuild")
    # the pipe-conductivity objective: calc_fluid_pipe_resistance reads pipe.k and writes R_fp
    for cls in ("SingleUTube",):
        cf = prog.method(f"{BH}.{cls}", "calc_fluid_pipe_resistance")
        if cf is None:
            raise AnalysisError(f"{cls}.calc_fluid_pipe_resistance not found")
        reads_k = any((attr_chain(n) or "") == "self.pipe.k" for n in ast.walk(cf.node) if isinstance(n, ast.Attribute))
        writes_rfp = any(isinstance(n, ast.Assign) and any((attr_chain(t) or "") == "self.R_fp" for t in n.targets) for n in ast.walk(cf.node))
        res.ob("R15.4", f"{cls}.calc_fluid_pipe_resistance recomputes R_fp from the current pipe.k (what the conductivity objective relies on)", reads_k and writes_rfp, prog.loc(cf, cf.node))
        if not (reads_k and writes_rfp):
            res.violation("R15.4", f"rfp-recompute|{cls}", prog.loc(cf, cf.node), cf.qualname, "calc_fluid_pipe_resistance no longer recomputes R_fp from pipe.k: the pipe-conductivity objective would not depend on what it varies")


VARIANTS = [
    Variant("pipe-conductivity search skipped when the estimate's residual is below 1e-3 (seeded C15_i)", "break",
            [(BH, "        solve_root(\n            eq_single_u_tube.pipe.k,\n            objective_pipe_conductivity,\n            lower=k_p_lower,\n            upper=k_p_upper,\n        )",
              "        if abs(objective_pipe_conductivity(eq_single_u_tube.pipe.k)) > 1.0e-3:\n            solve_root(\n                eq_single_u_tube.pipe.k,\n                objective_pipe_conductivity,\n                lower=k_p_lower,\n                upper=k_p_upper,\n            )")], "R15.5"),
    Variant("pipe-conductivity search warm-started within a decade of the previous conversion's root (seeded C15_g)", "break",
            [(BH, "class GHEDesignerBoreholeWithMultiplePipes(GHEDesignerBoreholeBase):\n", "class GHEDesignerBoreholeWithMultiplePipes(GHEDesignerBoreholeBase):\n    _k_p_equivalent = None\n\n"),
             (BH, "        k_p_upper = eq_single_u_tube.pipe.k * 10.0\n", "        k_p_upper = eq_single_u_tube.pipe.k * 10.0\n        if self._k_p_equivalent is not None:\n            k_p_lower = max(k_p_lower, self._k_p_equivalent / 10.0)\n            k_p_upper = min(k_p_upper, self._k_p_equivalent * 10.0)\n")], "R15.5"),
    Variant("solve_root's default absolute tolerance loosened to 1e-3 (seeded C15_e)", "break",
            [("ghedesigner.utilities", "def solve_root(x, objective_function, lower=None, upper=None, abs_tol=1.0e-6,", "def solve_root(x, objective_function, lower=None, upper=None, abs_tol=1.0e-3,")], "R15.5"),
    Variant("solve_root's default absolute tolerance tightened to 1e-8", "benign",
            [("ghedesigner.utilities", "def solve_root(x, objective_function, lower=None, upper=None, abs_tol=1.0e-6,", "def solve_root(x, objective_function, lower=None, upper=None, abs_tol=1.0e-8,")]),
    Variant("u_tube_volumes recomputes the film coefficient at borehole flow / nPipes (seeded C15_c)", "break",
            [(BH, "        resist_conv = 1 / (self.h_f * area_surf_inner)  # Convection resistance (m.K/W)",
              "        h_f = gt.pipes.convective_heat_transfer_coefficient_circular_pipe(self.m_flow_borehole / self.nPipes, self.r_in, self.fluid.mu, self.fluid.rho, self.fluid.k, self.fluid.cp, self.pipe.roughness)\n        resist_conv = 1 / (h_f * area_surf_inner)  # Convection resistance (m.K/W)")], "R15.3"),
    Variant("pipe-conductivity bracket narrowed to one decade below the estimate (seeded C15_b)", "break",
            [(BH, "        k_p_lower = eq_single_u_tube.pipe.k / 100.0", "        k_p_lower = eq_single_u_tube.pipe.k / 10.0")], "R15.5"),
    Variant("pipe-conductivity bracket widened", "benign",
            [(BH, "        k_p_lower = eq_single_u_tube.pipe.k / 100.0", "        k_p_lower = eq_single_u_tube.pipe.k / 1000.0")]),
    Variant("coaxial: outer wall resistance with the inner pipe's conductivity (seeded C15)", "break",
            [(BH, "        resist_pipe = log(r_out_out / r_out_in) / (TWO_PI * self.pipe.k[1])", "        resist_pipe = log(r_out_out / r_out_in) / (TWO_PI * self.pipe.k[0])")], "R15.3"),
    Variant("F14 repaired: the grout objective and the final write rebuild the delta-circuit resistances", "repair",
            [(BH, "            # Initialize stored_coefficients\n            resist_bh_prime", "            # Initialize stored_coefficients\n            preliminary_new_single_u_tube.update_thermal_resistances(preliminary_new_single_u_tube.R_fp)\n            resist_bh_prime"),
             (BH, "        preliminary_new_single_u_tube.grout.k = k_g\n\n        return preliminary_new_single_u_tube", "        preliminary_new_single_u_tube.grout.k = k_g\n        preliminary_new_single_u_tube.update_thermal_resistances(preliminary_new_single_u_tube.R_fp)\n\n        return preliminary_new_single_u_tube")], "R15.4"),
    Variant("F14 half repaired: only the objective rebuilds the circuit, the returned tube keeps the stale one", "repair",
            [(BH, "            # Initialize stored_coefficients\n            resist_bh_prime", "            # Initialize stored_coefficients\n            preliminary_new_single_u_tube.update_thermal_resistances(preliminary_new_single_u_tube.R_fp)\n            resist_bh_prime")], "R15.4|ghedesigner.borehole_heat_exchangers.GHEDesignerBoreholeWithMultiplePipes.match_effective_borehole_resistance.<locals>"),
    Variant("equivalent tube computed for three tubes", "break", [(BH, "        # Compute equivalent single U-tube geometry\n        n = 2", "        # Compute equivalent single U-tube geometry\n        n = 3")], "R15.1"),
    Variant("pipe volume forgets to subtract the fluid volume", "break", [(BH, "        vol_pipe = n * pi * (self.r_out**2) - vol_fluid", "        vol_pipe = n * pi * (self.r_out**2)")], "R15.1"),
    Variant("SingleUTube.to_single returns a fresh tube", "break",
            [(BH, "    def to_single(self):\n        return self\n", "    def to_single(self):\n        return SingleUTube(self.m_flow_borehole, self.fluid, self.borehole, self.pipe, self.grout, self.soil)\n")], "R15.2"),
    Variant("outer radius from the pipe volume alone", "break", [(BH, "        r_p_o_prime = sqrt((vol_fluid + vol_pipe) / (n * pi))", "        r_p_o_prime = sqrt(vol_pipe / (n * pi))")], "R15.1"),
    Variant("grout objective compares the tube with itself", "break",
            [(BH, "            resist_bh = self.calc_effective_borehole_resistance()\n            return resist_bh - resist_bh_prime", "            resist_bh = preliminary_new_single_u_tube.calc_effective_borehole_resistance()\n            return resist_bh - resist_bh_prime")], "R15.3"),
    Variant("coaxial to_single skips the grout match", "break",
            [(BH, "        new_single_u_tube = self.match_effective_borehole_resistance(preliminary)\n\n        return new_single_u_tube", "        new_single_u_tube = preliminary\n\n        return new_single_u_tube")], "R15.3"),
    Variant("equivalent tube shares the original grout", "break", [(BH, "        grout = deepcopy(self.grout)", "        grout = self.grout")], "R15.3"),
    Variant("conductivity objective targets the pipe resistance alone", "break", [(BH, "            return eq_single_u_tube.R_fp - (resist_conv + resist_pipe)", "            return eq_single_u_tube.R_fp - resist_pipe")], "R15.3"),
    Variant("coaxial fluid volume counts the inner pipe wall", "break", [(BH, "        vol_fluid = pi * ((r_in_in**2) + (r_out_in**2) - (r_in_out**2))", "        vol_fluid = pi * ((r_in_out**2) + (r_out_in**2) - (r_in_in**2))")], "R15."),
    Variant("pi * r**2 written as pi * r * r", "benign", [(BH, "        vol_fluid = n * pi * (self.r_in**2)\n        vol_pipe", "        vol_fluid = n * pi * self.r_in * self.r_in\n        vol_pipe")]),
    Variant("radii through the cross-section areas", "benign",
            [(BH, "        r_p_i_prime = sqrt(vol_fluid / (n * pi))\n        r_p_o_prime = sqrt((vol_fluid + vol_pipe) / (n * pi))", "        area_i = vol_fluid / n\n        area_o = (vol_pipe + vol_fluid) / n\n        r_p_i_prime = sqrt(area_i / pi)\n        r_p_o_prime = sqrt(area_o / pi)")]),
]
