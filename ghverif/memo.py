"""Memoised returns: a function that hands back a stored result  `return STORE[key]`  is a pure function of its arguments
only if the key depends on every parameter the result depends on.  memo_bypass() finds such returns and says which
parameters the key leaves out (flow-insensitive dependence of the key's names on the parameters, through all local
assignments, including assignments under a branch whose test reads a parameter)."""
from __future__ import annotations

import ast
from typing import Dict, List, Set, Tuple

from .model import Program, attr_chain, walk_no_nested


INJECTIVE_CALLS = {"tuple", "list", "str", "repr", "float", "frozenset", "id", "sorted", "bool"}


def _faithful_names(e) -> Set[str]:
    """names whose VALUE the expression carries along: not those that only pass through a function that merges different
    values (len, round, int, abs, hash, min, max, ... or // and %) - a key built from len(x) does not tell two x apart"""
    out: Set[str] = set()

    def go(n, lossy):
        if isinstance(n, ast.Name):
            if isinstance(n.ctx, ast.Load) and not lossy:
                out.add(n.id)
            return
        if isinstance(n, ast.Call):
            f = n.func
            keep = isinstance(f, ast.Name) and f.id in INJECTIVE_CALLS
            for a in list(n.args) + [k.value for k in n.keywords]:
                go(a, lossy or not keep)
            return
        if isinstance(n, ast.BinOp) and isinstance(n.op, (ast.FloorDiv, ast.Mod)):
            go(n.left, True)
            go(n.right, True)
            return
        if isinstance(n, (ast.Compare, ast.BoolOp)):
            for c in ast.iter_child_nodes(n):
                go(c, True)
            return
        if isinstance(n, (ast.ListComp, ast.GeneratorExp, ast.SetComp)):
            # [f(x) for x in C] carries C only as far as f carries x
            inner = _faithful_names(n.elt)
            for g in n.generators:
                tn = {t.id for t in ast.walk(g.target) if isinstance(t, ast.Name)}
                go(g.iter, lossy or not (tn & inner) or bool(g.ifs))
            out.update(inner - {t.id for g in n.generators for t in ast.walk(g.target) if isinstance(t, ast.Name)} if not lossy else set())
            return
        for c in ast.iter_child_nodes(n):
            go(c, lossy)

    go(e, False)
    return out


def _param_deps(fn: ast.FunctionDef, faithful: bool = False) -> Dict[str, Set[str]]:
    params = [a.arg for a in fn.args.posonlyargs + fn.args.args + fn.args.kwonlyargs]
    deps: Dict[str, Set[str]] = {p: {p} for p in params}

    def names(e) -> Set[str]:
        if faithful:
            return _faithful_names(e)
        return {x.id for x in ast.walk(e) if isinstance(x, ast.Name) and isinstance(x.ctx, ast.Load)}

    def visit(body, ctrl: Set[str], changed: List[bool]):
        for s in body:
            if isinstance(s, (ast.Assign, ast.AugAssign, ast.AnnAssign)):
                val = s.value
                tg = s.targets if isinstance(s, ast.Assign) else [s.target]
                src = set(ctrl)
                if val is not None:
                    for n in names(val):
                        src |= deps.get(n, set())
                for t in tg:
                    for x in ast.walk(t):
                        if isinstance(x, ast.Name) and isinstance(x.ctx, ast.Store):
                            old = deps.get(x.id, set())
                            new = old | src
                            if new != old:
                                deps[x.id] = new
                                changed[0] = True
            elif isinstance(s, (ast.If, ast.While)):
                c2 = set(ctrl)
                for n in names(s.test):
                    c2 |= deps.get(n, set())
                visit(s.body, c2, changed)
                visit(s.orelse, c2, changed)
            elif isinstance(s, ast.For):
                c2 = set(ctrl)
                src = set()
                for n in names(s.iter):
                    src |= deps.get(n, set())
                for x in ast.walk(s.target):
                    if isinstance(x, ast.Name):
                        old = deps.get(x.id, set())
                        if (old | src | ctrl) != old:
                            deps[x.id] = old | src | ctrl
                            changed[0] = True
                visit(s.body, c2 | src, changed)
                visit(s.orelse, c2, changed)
            elif isinstance(s, (ast.With, ast.Try)):
                visit(s.body, ctrl, changed)
                for h in getattr(s, "handlers", []) or []:
                    visit(h.body, ctrl, changed)
                visit(getattr(s, "orelse", []) or [], ctrl, changed)
                visit(getattr(s, "finalbody", []) or [], ctrl, changed)

    for _ in range(8):
        ch = [False]
        visit(fn.body, set(), ch)
        if not ch[0]:
            break
    return deps


def _written_anywhere(prog: Program, last: str) -> bool:
    """some statement of the package stores INTO a container called `last` (X.last[k] = .., X.last.setdefault / update / append ..,
    or re-binds it outside a class body / module top level): it can hold what an earlier call left there"""
    cache = getattr(prog, "_written_tables", None)
    if cache is None:
        cache = set()
        for m in prog.modules.values():
            for fn in ast.walk(m.tree):
                if not isinstance(fn, (ast.FunctionDef, ast.AsyncFunctionDef)):
                    continue
                for n in ast.walk(fn):
                    if isinstance(n, ast.Subscript) and isinstance(n.ctx, (ast.Store, ast.Del)):
                        c = attr_chain(n.value)
                        if c:
                            cache.add(c.split(".")[-1])
                    elif isinstance(n, ast.Call) and isinstance(n.func, ast.Attribute) and n.func.attr in ("setdefault", "update", "append", "extend", "pop", "clear", "insert", "add"):
                        c = attr_chain(n.func.value)
                        if c:
                            cache.add(c.split(".")[-1])
                    elif isinstance(n, (ast.Attribute, ast.Name)) and isinstance(n.ctx, ast.Store):
                        cache.add(n.attr if isinstance(n, ast.Attribute) else n.id)
                    # a table that is given another name ( t = self.table ) or handed to a call may be filled through that name
                    if isinstance(n, ast.Assign) and isinstance(n.value, (ast.Attribute, ast.Name)) and attr_chain(n.value):
                        cache.add(attr_chain(n.value).split(".")[-1])
                    elif isinstance(n, ast.Call):
                        for a_ in list(n.args) + [k.value for k in n.keywords]:
                            if isinstance(a_, ast.Attribute) and attr_chain(a_) and not isinstance(n.func, ast.Name):
                                cache.add(attr_chain(a_).split(".")[-1])
        prog._written_tables = cache
    return last in cache


def memo_bypass(prog: Program, fi, ignore: Tuple[str, ...] = ("self", "cls", "disp", "verbose")):
    """-> [(return node, store text, key text, parameters the key does not depend on)] for every  return STORE[key] /
    return STORE.get(key)  where STORE is a module-level name or an attribute chain (not a local built in this call)"""
    fn = fi.node
    locals_ = {x.id for x in walk_no_nested(fn) if isinstance(x, ast.Name) and isinstance(x.ctx, ast.Store)}
    params = [a.arg for a in fn.args.posonlyargs + fn.args.args + fn.args.kwonlyargs]
    deps = None
    out = []
    for r in walk_no_nested(fn):
        if not (isinstance(r, ast.Return) and r.value is not None):
            continue
        v = r.value
        store = key = None
        if isinstance(v, ast.Subscript):
            store, key = v.value, v.slice
        elif isinstance(v, ast.Call) and isinstance(v.func, ast.Attribute) and v.func.attr == "get" and v.args:
            store, key = v.func.value, v.args[0]
        if store is None:
            continue
        ch = attr_chain(store)
        if ch is None:
            continue
        head = ch.split(".")[0]
        if head in locals_ or head in params and "." not in ch:
            continue  # a container of this call
        if "." not in ch and head not in prog.modules[fi.module].constants and head not in prog.modules[fi.module].imports:
            continue
        if not _written_anywhere(prog, ch.split(".")[-1]):
            continue  # a table that nothing ever stores into is a constant look-up, not a memo
        if deps is None:
            deps = _param_deps(fn, faithful=True)
        kd: Set[str] = set()
        for nm in _faithful_names(key):
            kd |= deps.get(nm, set())
        missing = [p for p in params if p not in kd and p not in ignore]
        out.append((r, ch, ast.unparse(key), missing))
    return out


# ---------------------------------------------------------------------------
def substring_tests(prog: Program):
    """`a in b` / `a not in b` where b is certainly a string (a literal, a parenthesised literal mistaken for a one-element
    tuple, a module constant that is one, the result of .upper() / str(), a parameter annotated str) and a is not a string
    literal: a SUBSTRING test where a name lookup wants equality or membership in a collection.
    -> [(FunctionInfo, Compare node, text of the right operand)]"""
    out = []

    def is_str(fi, e, depth=3) -> bool:
        if depth <= 0:
            return False
        if isinstance(e, ast.Constant):
            return isinstance(e.value, str)
        if isinstance(e, ast.JoinedStr):
            return True
        if isinstance(e, ast.Call):
            f = e.func
            if isinstance(f, ast.Name) and f.id in ("str", "repr"):
                return True
            return isinstance(f, ast.Attribute) and f.attr in ("upper", "lower", "strip", "title", "format", "join", "casefold")
        if isinstance(e, ast.Attribute) and e.attr == "name":
            return True  # Enum.name
        if isinstance(e, ast.Name):
            fn = fi.node
            binds = [s_.value for s_ in walk_no_nested(fn) if isinstance(s_, ast.Assign) and any(isinstance(t, ast.Name) and t.id == e.id for t in s_.targets)]
            other = [x for x in walk_no_nested(fn) if isinstance(x, ast.Name) and x.id == e.id and isinstance(x.ctx, ast.Store)]
            arg = next((a for a in fn.args.posonlyargs + fn.args.args + fn.args.kwonlyargs if a.arg == e.id), None)
            ann = arg is not None and isinstance(arg.annotation, ast.Name) and arg.annotation.id == "str"
            if arg is not None and not ann:
                return False
            if binds or ann:
                return len(other) == len(binds) and all(is_str(fi, b, depth - 1) for b in binds)
            c = prog.modules[fi.module].constants.get(e.id)
            if c is not None and e.id not in {x.id for x in other}:
                return is_str(fi, c, depth - 1)
        return False

    for q, fi in sorted(prog.funcs.items()):
        for n in walk_no_nested(fi.node):
            if isinstance(n, ast.Compare) and len(n.ops) == 1 and isinstance(n.ops[0], (ast.In, ast.NotIn)):
                left, right = n.left, n.comparators[0]
                if isinstance(left, ast.Constant):
                    continue
                if is_str(fi, right):
                    out.append((fi, n, ast.unparse(right)))
    return out
